------------------------------ MODULE FenScan ------------------------------
(***************************************************************************)
(* C17 / C15, design level: the board-field scanner of Game::new as a      *)
(* state machine over the characters of the field, with its two counters   *)
(*   row  (counts down from W-1 at every '/')                              *)
(*   col  (advances by 1 per piece letter and by n per digit n)            *)
(* on a board of width W (8 in the code; 3 in the exhaustive               *)
(* configuration, with digits 0..W+1 standing for the digits 0..9).        *)
(* Strict = TRUE is the repaired scanner (col must be W at every '/',      *)
(* digit must be 1..W-col); Strict = FALSE the pinned one.                 *)
(* TLC runs the scanner on EVERY string up to length MaxLen over the       *)
(* alphabet and checks                                                     *)
(*   InvInRange   every square index written is on the board               *)
(*   InvLanguage  the scanner accepts exactly the strings of the grammar   *)
(*                (W ranks of exactly W squares, digits 1..W)              *)
(***************************************************************************)
EXTENDS Integers, Sequences, FiniteSets, TLC

CONSTANTS W, MaxLen, Strict
\* characters are pairs <<kind, n>>: a piece letter <<"p", 0>>, the separator <<"/", 0>>, the digit n <<"d", n>>
P == <<"p", 0>>
Slash == <<"/", 0>>
Alphabet == {P, Slash} \cup { <<"d", n>> : n \in 0..(W + 1) }
Val(c) == c[2]

RECURSIVE Strings(_)
Strings(n) == IF n = 0 THEN { << >> } ELSE LET S == Strings(n - 1) IN S \cup { Append(s, c) : s \in { t \in S : Len(t) = n - 1 }, c \in Alphabet }

\* --- the grammar (property level, scaled) ---
RECURSIVE SplitSlash(_)
SplitSlash(s) ==
  IF s = << >> THEN << << >> >>
  ELSE LET rest == SplitSlash(Tail(s)) IN
       IF Head(s) = Slash THEN << << >> >> \o rest
       ELSE << <<Head(s)>> \o rest[1] >> \o Tail(rest)
RECURSIVE Width(_)
Width(rk) == IF rk = << >> THEN 0
             ELSE IF Head(rk) = P THEN 1 + Width(Tail(rk))
             ELSE IF Val(Head(rk)) \in 1..W THEN Val(Head(rk)) + Width(Tail(rk))
             ELSE 100                                           \* digit 0 or too large: never a valid rank
Grammar(s) == LET ranks == SplitSlash(s) IN Len(ranks) = W /\ \A i \in 1..W : Width(ranks[i]) = W

\* --- the scanner (design level): returns [ok, oob] ; oob = a write outside the board happened ---
RECURSIVE Scan(_, _, _, _)
Scan(s, row, col, oob) ==
  IF s = << >> THEN [ok |-> row = 0 /\ col = W, oob |-> oob]
  ELSE LET c == Head(s) IN
       IF c = Slash THEN
            IF row = 0 THEN [ok |-> FALSE, oob |-> oob]
            ELSE IF Strict /\ col # W THEN [ok |-> FALSE, oob |-> oob]
            ELSE Scan(Tail(s), row - 1, 0, oob)
       ELSE IF c = P THEN
            IF col = W THEN [ok |-> FALSE, oob |-> oob]
            ELSE Scan(Tail(s), row, col + 1, oob \/ col > W - 1)
       ELSE LET n == Val(c) IN
            IF Strict /\ (n = 0 \/ n > W - col) THEN [ok |-> FALSE, oob |-> oob]
            ELSE Scan(Tail(s), row, col + n, oob \/ col + n > W)   \* the pinned code writes squares col..col+n-1
Run(s) == Scan(s, W - 1, 0, FALSE)

VARIABLE s
Init == s \in Strings(MaxLen)
Next == UNCHANGED s
Spec == Init /\ [][Next]_s
InvInRange == ~Run(s).oob
InvLanguage == Run(s).ok <=> Grammar(s)
=============================================================================
