---------------------------- MODULE TraceSearch ----------------------------
(***************************************************************************)
(* Trace validation of the search layer (impl -> spec).                    *)
(* One `go` event per call of the iterative-deepening driver on the real   *)
(* code (in-process with the poll hook, or the real binary over UCI):      *)
(*   fen, pre      the root: text import + moves played into the record    *)
(*   limit         depth limit, -1 = none                                  *)
(*   stop          poll index at which the running flag was cleared, -1    *)
(*   fresh         the table was empty when the search started             *)
(*   best          the announced move text, or "none"                      *)
(*   info          depths / scores / pv lines printed, in order            *)
(*   after         node-entry polls made after the flag was down           *)
(*   external_stop the watchdog had to stop a search that should have      *)
(*                 ended by itself                                         *)
(*   mate          1 / 2: TLC is asked to solve mate-in-1 / mate-in-2      *)
(*   panic         the search panicked                                     *)
(* Judgements are those of C06 C07 C08 C10 C18 C19, each reported with its *)
(* property id; the trace is accepted when every event was consumed.       *)
(***************************************************************************)
EXTENDS Fen, Json, IOUtils

Rec == ndJsonDeserialize(IOEnv.TRACE)

VARIABLES l, memo
vars == <<l, memo>>

ToSet(q) == { q[i] : i \in DOMAIN q }
F(ok, prop, what, detail) == IF ok THEN {} ELSE { [p |-> prop, w |-> what, d |-> detail] }
Report(fs) == IF fs = {} THEN TRUE ELSE PrintT(<<"FAIL", l, ToJson(fs)>>)
NoPos == [board |-> EmptyBoard, stm |-> White, cast |-> {}, ep |-> 8]

RECURSIVE ApplyTexts(_, _)
ApplyTexts(p, ts) ==
  IF ts = << >> THEN p
  ELSE LET c == { m \in Pseudo(p) : Uci(m) = Head(ts) } IN
       IF c = {} THEN NoPos
       ELSE LET m == CHOOSE m \in c : TRUE IN
            IF InCheck(ApplyBoard(p.board, p.stm, m), p.stm) THEN NoPos ELSE ApplyTexts(Apply(p, m), Tail(ts))

\* a line of move texts can be played one after another from p
\* (only the named move is tested for legality: one king-safety test per ply instead of one per move)
RECURSIVE Playable(_, _)
Playable(p, ts) ==
  IF ts = << >> THEN TRUE
  ELSE LET c == { m \in Pseudo(p) : Uci(m) = Head(ts) } IN
       IF c = {} THEN FALSE
       ELSE LET m == CHOOSE m \in c : TRUE IN
            /\ ~InCheck(ApplyBoard(p.board, p.stm, m), p.stm)
            /\ Playable(Apply(p, m), Tail(ts))

\* PVCHECK=0 (environment) switches the C18 judgement off for runs whose subject is another property
\* and whose searches print hundreds of long lines (tiny positions searched to depth 255)
JudgePv == "PVCHECK" \notin DOMAIN IOEnv \/ IOEnv.PVCHECK # "0"

Root(e) == ApplyTexts(IF e.fen = <<"startpos">> THEN StartPos ELSE Parse(e.fen), e.pre)
Where(e, p) == [fen |-> FenLine(p), limit |-> e.limit, stop |-> e.stop, h |-> e.h, s |-> e.s]

\* the announced move is a legal move of the root; "none" exactly when there is no legal move
MoveOK(e, lt) == IF lt = {} THEN e.best = "none" ELSE e.best \in lt
MateRange(sc) == sc > 32767 - 1000 \/ sc < -32768 + 1000
SawMate(e) == \E i \in DOMAIN e.info.scores : MateRange(e.info.scores[i])
Reached(e, n) == \E i \in DOMAIN e.info.depths : e.info.depths[i] >= n

Init == l = 1 /\ memo = {}

Go ==
  /\ l <= Len(Rec) /\ Rec[l].ev = "go"
  /\ LET e == Rec[l] IN
     IF "hung" \in DOMAIN e
     THEN /\ Report(F(FALSE, "PANIC", "the search did not return within 15 s after the stop flag went down (wedged)",
                      [fen |-> e.fen, pre |-> e.pre, limit |-> e.limit, stop |-> e.stop, h |-> e.h, s |-> e.s]))
          /\ memo' = memo
     ELSE IF "setup_error" \in DOMAIN e
     THEN /\ Report(F(FALSE, "HARNESS", "scenario could not be set up", [err |-> e.setup_error]))
          /\ memo' = memo
     ELSE
     LET p == Root(e)
         lt == LegalTexts(p)
         w == Where(e, p)
         natural == e.stop = -1 /\ ~e.external_stop       \* nobody asked the search to stop
         key == <<e.fen, e.pre, e.limit>>
         result == [best |-> e.best, scores |-> e.info.scores, pvs |-> e.info.pvs, depths |-> e.info.depths]
         repro == e.fresh /\ natural /\ e.limit >= 1 /\ ~e.panic
         m1set == IF e.mate = 1 THEN MateIn1Moves(p) ELSE {}           \* the independent solver, evaluated once
         m2set == IF e.mate = 2 THEN KeepsMate2Moves(p) ELSE {}
     IN /\ Report(
             F(p # NoPos, "HARNESS", "prefix is not legal", w)
             \cup F(~e.panic, "PANIC", "the search panicked", [at |-> w, msg |-> IF e.panic THEN e.msg ELSE ""])
             \* C06: a search allowed to finish announces a legal move (none only in dead positions)
             \cup (IF natural /\ ~e.panic
                   THEN F(MoveOK(e, lt), "C06", "announced move is not a legal move of the root",
                          [at |-> w, best |-> e.best, legal |-> lt])
                   ELSE {})
             \* C07: stopped at poll index `stop` (or by the watchdog at an arbitrary moment)
             \cup (IF ~natural /\ ~e.panic
                   THEN F(MoveOK(e, lt), "C07", "stopped search does not answer with a legal move",
                          [at |-> w, best |-> e.best, nlegal |-> Cardinality(lt), polls |-> e.polls])
                        \cup F(e.stop >= 0 => e.after <= 1, "C07", "search kept expanding nodes after the stop signal",
                               [at |-> w, polls_after_stop |-> e.after])
                   ELSE {})
             \* C08: a depth limit is honoured and the limited search ends by itself
             \cup (IF e.limit >= 1
                   THEN F(\A i \in DOMAIN e.info.depths : e.info.depths[i] <= e.limit, "C08",
                          "search went deeper than the depth limit", [at |-> w, depths |-> e.info.depths])
                        \* (a watchdog stop while every reported depth is still below the limit is a slow search, not a verdict)
                        \cup F(e.stop = -1 /\ e.external_stop => \A i \in DOMAIN e.info.depths : e.info.depths[i] < e.limit, "C08",
                               "depth-limited search reached its limit and did not end by itself", [at |-> w, depths |-> e.info.depths])
                   ELSE {})
             \* C10: forced mates within the horizon; dead positions
             \cup (IF e.mate > 0 THEN F(~InCheck(p.board, Other(p.stm)), "HARNESS", "scenario position is not sane", w) ELSE {})
             \cup (IF e.mate = 1 /\ ~e.panic
                   THEN F(m1set # {}, "HARNESS", "scenario is not a mate in one", w) ELSE {})
             \cup (IF e.mate = 2 /\ ~e.panic
                   THEN F(m2set # {}, "HARNESS", "scenario is not a forced mate in two", w) ELSE {})
             \* judged when the search got to the depth the statement names (3 for mate in one, 5 for mate in two)
             \cup (IF e.mate = 1 /\ ~e.panic /\ m1set # {} /\ (Reached(e, 3) \/ (natural /\ e.limit = -1))
                   THEN F(e.best \in { Uci(m) : m \in m1set }, "C10", "mate in one not played",
                          [at |-> w, best |-> e.best, mating |-> { Uci(m) : m \in m1set }])
                   ELSE {})
             \cup (IF e.mate = 2 /\ ~e.panic /\ m2set # {} /\ (Reached(e, 5) \/ (natural /\ e.limit = -1))
                   THEN F(e.best \in { Uci(m) : m \in m2set }, "C10", "forced mate in two not kept",
                          [at |-> w, best |-> e.best, keeping |-> { Uci(m) : m \in m2set }])
                   ELSE {})
             \cup (IF e.mate > 0 /\ ~e.panic /\ e.stop = -1
                   THEN F(e.external_stop => ~SawMate(e), "C10", "search reported a mate score and did not stop by itself",
                          [at |-> w, scores |-> e.info.scores])
                   ELSE {})
             \cup (IF lt = {} /\ ~e.panic
                   THEN F(e.best = "none" /\ ~e.external_stop, "C10", "dead position: a move was invented or the search did not end",
                          [at |-> w, best |-> e.best])
                   ELSE {})
             \* C18: every printed principal variation is a playable line
             \cup (IF JudgePv
                   THEN UNION { F(Playable(p, e.info.pvs[i]), "C18", "a printed principal variation is not a playable line",
                                  [at |-> w, depth |-> IF i \in DOMAIN e.info.depths THEN e.info.depths[i] ELSE -1, pv |-> e.info.pvs[i]])
                                : i \in DOMAIN e.info.pvs }
                   ELSE {})
             \* design level: the depths SearchCtl.tla predicts for this scenario (drift, never a verdict)
             \cup (IF "xd" \in DOMAIN e /\ ~e.panic
                   THEN F(e.xd = e.info.depths, "DRIFT", "SearchCtl.tla predicts other iteration depths",
                          [at |-> w, model |-> e.xd, observed |-> e.info.depths])
                   ELSE {})
             \* C19: same position, same limit, fresh table => same answer
             \cup (IF repro
                   THEN UNION { F(x.r = result, "C19", "fixed-depth search from a fresh table is not reproducible",
                                  [at |-> w, first |-> x.r, now |-> result]) : x \in { y \in memo : y.k = key } }
                   ELSE {}))
        /\ memo' = IF repro /\ ~\E y \in memo : y.k = key THEN memo \cup { [k |-> key, r |-> result] } ELSE memo
  /\ l' = l + 1

\* the driver process died (abort, stack overflow): attributed to the scenario being run
Died ==
  /\ l <= Len(Rec) /\ Rec[l].ev = "died"
  /\ Report(F(FALSE, "PANIC", "the process running the search died", [rc |-> Rec[l].rc, stderr |-> Rec[l].stderr]))
  /\ UNCHANGED memo /\ l' = l + 1

Next == Go \/ Died
Spec == Init /\ [][Next]_vars

Accepted ==
  IF TLCGet("stats").diameter = Len(Rec) + 1
  THEN PrintT(<<"TRACE-OK", Len(Rec)>>)
  ELSE PrintT(<<"TRACE-STUCK", TLCGet("stats").diameter, Len(Rec)>>) /\ FALSE
=============================================================================
