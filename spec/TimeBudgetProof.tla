-------------------------- MODULE TimeBudgetProof --------------------------
(***************************************************************************)
(* C13, unbounded: the engine's time formula (as repaired) allots a        *)
(* non-negative time that never exceeds the mover's clock, for ALL natural *)
(* clock values and increments - not only the boundary grid TLC explores.  *)
(* Checked by TLAPS (tlapm, SMT back end).                                 *)
(***************************************************************************)
EXTENDS Integers, TLAPS

Max(a, b) == IF a > b THEN a ELSE b
Min(a, b) == IF a < b THEN a ELSE b
Budget(clock, inc) == Max(Min(Max((clock \div 50) + inc - 150, 0), clock) - 5, 0)
MoveTimeBudget(mt) == Max(mt - 5, 0)

THEOREM BudgetWithinClock ==
  \A clock, inc \in Nat : Budget(clock, inc) >= 0 /\ Budget(clock, inc) <= clock
  BY DEF Budget, Max, Min

THEOREM MoveTimeWithin ==
  \A mt \in Nat : MoveTimeBudget(mt) >= 0 /\ MoveTimeBudget(mt) <= mt
  BY DEF MoveTimeBudget, Max

\* low clocks shorten rather than extend: without increment nothing is allotted up to 7.5 s
THEOREM LowClock ==
  \A clock \in Nat : clock <= 7500 => Budget(clock, 0) = 0
  BY DEF Budget, Max, Min
=============================================================================
