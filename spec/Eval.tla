-------------------------------- MODULE Eval --------------------------------
(***************************************************************************)
(* The evaluation score as a function of the board: the sum of the         *)
(* material + piece-square values of the pieces, White positive, tables    *)
(* indexed from White's side (so White's squares are rank-flipped), with   *)
(* BOTH kings valued by the same king table.  ScoreTables.tla is generated *)
(* at check time from the compiled constants of the repository.            *)
(***************************************************************************)
EXTENDS Chess, ScoreTables

TableOf(kind, kt) ==
  CASE kind = "P" -> TabP [] kind = "N" -> TabN [] kind = "B" -> TabB [] kind = "R" -> TabR
    [] kind = "Q" -> TabQ [] kind = "K" -> (IF kt = "e" THEN TabKend ELSE TabKmid)

PieceValue(p, s, kt) ==
  IF p = Empty THEN 0
  ELSE IF p \in WhitePieces THEN TableOf(p, kt)[SqOf(7 - Row(s), Col(s)) + 1]
  ELSE 0 - TableOf(KindOf(p), kt)[s + 1]

RECURSIVE SumFrom(_, _, _)
SumFrom(b, s, kt) == IF s = 64 THEN 0 ELSE PieceValue(b[s], s, kt) + SumFrom(b, s + 1, kt)

\* kt \in {"m", "e"}: middlegame / endgame king table
ScoreWith(b, kt) == SumFrom(b, 0, kt)
AllowedScores(b) == { ScoreWith(b, "m"), ScoreWith(b, "e") }

\* the engine's phase rule (design level; the property does not fix the threshold)
RECURSIVE AbsSum(_, _, _)
AbsSum(b, s, kt) == IF s = 64 THEN 0
                    ELSE LET v == PieceValue(b[s], s, kt) IN (IF v < 0 THEN 0 - v ELSE v) + AbsSum(b, s + 1, kt)
IsEndgame(b, kt) == AbsSum(b, 0, kt) < 2 * EndgameThreshold
=============================================================================
