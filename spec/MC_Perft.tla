------------------------------ MODULE MC_Perft ------------------------------
(***************************************************************************)
(* Cross-check of the reference rules (Chess.tla) against the published    *)
(* perft counts: the number of legal move paths of length d from the six   *)
(* standard test positions, computed by TLC from Legal / Apply alone.      *)
(* One state per (position, depth); the invariant compares with the        *)
(* published number.  This is what the trust in Chess.tla rests on.        *)
(***************************************************************************)
EXTENDS Fen, Json, IOUtils

Cases == JsonDeserialize(IOEnv.PERFT)     \* [{fen: chars, d: depth, n: published count}]

VARIABLE i
Init == i \in DOMAIN Cases
Next == UNCHANGED i
Spec == Init /\ [][Next]_i
InvPerft == LET c == Cases[i] IN
            IF Perft(Parse(c.fen), c.d) = c.n THEN TRUE
            ELSE PrintT(<<"PERFT-MISMATCH", i, c.d, c.n, Perft(Parse(c.fen), c.d)>>) /\ FALSE
=============================================================================
