-------------------------------- MODULE Uci --------------------------------
(***************************************************************************)
(* Design-level model of the UCI session layer (uci.rs): the stdin loop,   *)
(* one search thread and one detached timer thread per `go`, the running   *)
(* flag (a FRESH flag object per go, as in the code), the mutex around     *)
(* {game, table}, and the GUI.  Every label is one atomic step of the code *)
(* (one store, one lock operation, one print).                             *)
(*                                                                         *)
(* RaiseFirst / ClearFirst select the order of two pairs of stores:        *)
(*   RaiseFirst = TRUE   command_go raises the flag BEFORE spawning the    *)
(*                       timer thread (the repaired order)                 *)
(*   ClearFirst = TRUE   the search thread clears the flag BEFORE printing *)
(*                       bestmove (the repaired order)                     *)
(*   TakeGame = TRUE     the game is moved into the search thread when it  *)
(*                       is spawned, not read from the shared data later   *)
(* With FALSE the model is the pinned code; TLC then finds the two races   *)
(* (selftest), which is what makes the properties below non-vacuous.       *)
(*                                                                         *)
(* Properties (C14): at most one bestmove per go; a position/go sent when  *)
(* the GUI has seen a bestmove for every go is never refused; every go     *)
(* bounded by time or depth is eventually answered; isready is always      *)
(* answered; no deadlock of the stdin loop.                                *)
(***************************************************************************)
EXTENDS Integers, Sequences, FiniteSets, TLC, Json

CONSTANTS NGO,          \* go commands per session
          MAXCMDS,      \* GUI commands per session
          RaiseFirst, ClearFirst,
          TakeGame      \* TRUE: command_go moves the game into the search thread (repaired);
                        \* FALSE: the thread reads the shared game after it got the mutex (pinned)

GoCmds == {"go_inf", "go_time", "go_depth"}
Cmds == {"position", "stop", "isready", "ucinewgame", "wait", "show"} \cup GoCmds

(* --algorithm Uci {
variables
  pipe = << >>,                 \* GUI -> engine stdin
  sent = 0, goSent = 0,
  flag = [g \in 0..NGO |-> FALSE],   \* one AtomicBool object per go; 0 = the initial one
  cur = 0,                      \* the flag object the stdin loop currently holds
  mutex = "free",
  game = 0,                     \* version of the position held in the shared data (0 = none)
  nver = 0,                     \* versions handed out so far
  asked = [g \in 1..NGO |-> 0],  \* the position version go g was asked about
  searched = [g \in 1..NGO |-> -1], \* the position version search g actually used
  panicked = FALSE,
  out = << >>,                  \* engine stdout as seen by the GUI
  goes = 0,                     \* accepted go count
  kind = [g \in 1..NGO |-> "none"],
  started = [g \in 1..NGO |-> FALSE],     \* search thread g spawned
  finished = [g \in 1..NGO |-> FALSE],    \* search thread g exited
  armed = [g \in 1..NGO |-> FALSE],       \* timer thread g spawned
  handle = 0,                   \* JoinHandle held by the stdin loop
  refusedQuiescent = FALSE,
  readySent = 0,
  infSent = FALSE,
  sentlog = << >>;              \* history: what the GUI sent and whether it was quiescent then (scenario output)

define {
  NBest(g) == Cardinality({i \in DOMAIN out : out[i] = <<"bestmove", g>>})
  Best(g) == NBest(g) > 0
  GoAnswers == Cardinality({i \in DOMAIN out : out[i][1] = "bestmove"
                                            \/ (out[i][1] \in {"err_running", "err_nogame"} /\ out[i][2] \in GoCmds)})
  \* the GUI has seen an answer (bestmove or refusal) for every go it has issued
  Quiescent == goSent = GoAnswers
  NReady == Cardinality({i \in DOMAIN out : out[i] = <<"readyok">>})
  AtMostOneBest == \A g \in 1..NGO : NBest(g) <= 1
  Honoured == ~refusedQuiescent
  NoPanic == ~panicked
  \* the bestmove of go g is computed for the position go g was asked about
  RightPosition == \A g \in 1..NGO : Best(g) => searched[g] = asked[g]
  BoundedGoAnswered == \A g \in 1..NGO : (started[g] /\ kind[g] \in {"go_time", "go_depth"}) ~> Best(g)
  ReadyAnswered == (readySent > NReady) ~> (readySent = NReady)
  \* scenario output (spec -> impl): every complete GUI command history, with the quiescence of each command
  EmitSession == (sent = MAXCMDS) => PrintT(<<"SESSION", ToJson(sentlog)>>)
}

fair process (Gui = <<"gui", 0>>)
{
 G: while (sent < MAXCMDS) {
      with (c \in IF goSent < NGO THEN Cmds ELSE Cmds \ GoCmds) {
        \* `wait` blocks the stdin loop until the search ends: a GUI only sends it after a bounded go
        await c = "wait" => (goSent > 0 /\ ~infSent);
        \* UCI discipline: a GUI issues the next go only after the previous one was answered
        \* (every other command may come at any moment)
        await c \in GoCmds => Quiescent;
        pipe := Append(pipe, [c |-> c, q |-> Quiescent]);
        sentlog := Append(sentlog, [c |-> c, q |-> Quiescent]);
        sent := sent + 1;
        if (c \in GoCmds) { goSent := goSent + 1 };
        if (c = "go_inf") { infSent := TRUE };
        if (c = "isready") { readySent := readySent + 1 };
      }
    }
}

fair process (Main = <<"main", 0>>)
variables cmd = [c |-> "none", q |-> FALSE], gi = 0;
{
 M0: while (TRUE) {
       await pipe # << >>;
       cmd := Head(pipe); pipe := Tail(pipe);
 M1:   if (cmd.c = "isready") { out := Append(out, <<"readyok">>); }
       else if (cmd.c = "position") {
         if (flag[cur]) { out := Append(out, <<"err_running", cmd.c>>);
                          if (cmd.q) { refusedQuiescent := TRUE } }
         else {
 P1:       await mutex = "free"; mutex := "main";
 P2:       nver := nver + 1; game := nver; mutex := "free";
         }
       }
       else if (cmd.c = "show") {
         \* prints the game under the mutex; refused like position while the flag is up
         if (flag[cur]) { out := Append(out, <<"err_running", cmd.c>>);
                          if (cmd.q) { refusedQuiescent := TRUE } }
         else {
 H1:       await mutex = "free"; mutex := "main";
 H2:       out := Append(out, <<"shown", game>>); mutex := "free";
         }
       }
       else if (cmd.c \in GoCmds) {
         if (flag[cur]) { out := Append(out, <<"err_running", cmd.c>>);
                          if (cmd.q) { refusedQuiescent := TRUE } }
         else if (goes < NGO) {
 G1:       cur := goes + 1;                \* fresh flag object (value FALSE)
 G2:       await mutex = "free"; mutex := "main";
 G3:       if (game = 0) { out := Append(out, <<"err_nogame", cmd.c>>); mutex := "free"; }
           else {
             goes := goes + 1; gi := goes; kind[gi] := cmd.c; asked[gi] := game;
             if (TakeGame) { searched[gi] := game; game := 0 };
 G4:         if (RaiseFirst) { flag[gi] := TRUE };
 G5:         if (cmd.c = "go_time") { armed[gi] := TRUE; };     \* spawn the timer thread
 G6:         if (~RaiseFirst) { flag[gi] := TRUE };
 G7:         started[gi] := TRUE; handle := gi;                   \* spawn the search thread
 G8:         mutex := "free";                                   \* guard dropped on return
           }
         }
       }
       else if (cmd.c = "stop") {
 S1:     flag[cur] := FALSE;
 S2:     if (handle # 0) { await finished[handle]; handle := 0; }
       }
       else if (cmd.c = "wait") {
 W1:     if (handle # 0) { await finished[handle]; handle := 0; flag[cur] := FALSE; }
       }
       else if (cmd.c = "ucinewgame") {
         if (flag[cur]) {
 N1:       flag[cur] := FALSE;
 N2:       await finished[handle]; handle := 0;
         };
 N3:     await mutex = "free"; mutex := "main";
 N4:     game := 0; mutex := "free";
       }
     }
}

fair process (Search \in {<<"s", i>> : i \in 1..NGO})
variable me = self[2];
{
 T0: await started[me];
 T1: await mutex = "free"; mutex := "search";
     if (~TakeGame) {
       if (game = 0) { panicked := TRUE } else { searched[me] := game }
     };
     \* the search itself: an unlimited search ends only when its flag is down; a depth-limited one
     \* (and any search whose flag is down) ends by itself; the first poll is at the first node
 T2: await ~flag[me] \/ kind[me] = "go_depth";
 T3: if (ClearFirst) { flag[me] := FALSE };
 T4: out := Append(out, <<"bestmove", me>>);
 T5: if (~ClearFirst) { flag[me] := FALSE };
 T6: if (~TakeGame) { game := 0 }; mutex := "free"; finished[me] := TRUE;
}

fair process (Timer \in {<<"t", i>> : i \in 1..NGO})
variable tm = self[2];
{
 X0: await armed[tm];
 X1: flag[tm] := FALSE;                    \* the budget elapsed (any time after being armed)
}
} *)
\* BEGIN TRANSLATION (chksum(pcal) = "4b997e3f" /\ chksum(tla) = "6c5bf43d")
VARIABLES pc, pipe, sent, goSent, flag, cur, mutex, game, nver, asked, 
          searched, panicked, out, goes, kind, started, finished, armed, 
          handle, refusedQuiescent, readySent, infSent, sentlog

(* define statement *)
NBest(g) == Cardinality({i \in DOMAIN out : out[i] = <<"bestmove", g>>})
Best(g) == NBest(g) > 0
GoAnswers == Cardinality({i \in DOMAIN out : out[i][1] = "bestmove"
                                          \/ (out[i][1] \in {"err_running", "err_nogame"} /\ out[i][2] \in GoCmds)})

Quiescent == goSent = GoAnswers
NReady == Cardinality({i \in DOMAIN out : out[i] = <<"readyok">>})
AtMostOneBest == \A g \in 1..NGO : NBest(g) <= 1
Honoured == ~refusedQuiescent
NoPanic == ~panicked

RightPosition == \A g \in 1..NGO : Best(g) => searched[g] = asked[g]
BoundedGoAnswered == \A g \in 1..NGO : (started[g] /\ kind[g] \in {"go_time", "go_depth"}) ~> Best(g)
ReadyAnswered == (readySent > NReady) ~> (readySent = NReady)

EmitSession == (sent = MAXCMDS) => PrintT(<<"SESSION", ToJson(sentlog)>>)

VARIABLES cmd, gi, me, tm

vars == << pc, pipe, sent, goSent, flag, cur, mutex, game, nver, asked, 
           searched, panicked, out, goes, kind, started, finished, armed, 
           handle, refusedQuiescent, readySent, infSent, sentlog, cmd, gi, me, 
           tm >>

ProcSet == {<<"gui", 0>>} \cup {<<"main", 0>>} \cup ({<<"s", i>> : i \in 1..NGO}) \cup ({<<"t", i>> : i \in 1..NGO})

Init == (* Global variables *)
        /\ pipe = << >>
        /\ sent = 0
        /\ goSent = 0
        /\ flag = [g \in 0..NGO |-> FALSE]
        /\ cur = 0
        /\ mutex = "free"
        /\ game = 0
        /\ nver = 0
        /\ asked = [g \in 1..NGO |-> 0]
        /\ searched = [g \in 1..NGO |-> -1]
        /\ panicked = FALSE
        /\ out = << >>
        /\ goes = 0
        /\ kind = [g \in 1..NGO |-> "none"]
        /\ started = [g \in 1..NGO |-> FALSE]
        /\ finished = [g \in 1..NGO |-> FALSE]
        /\ armed = [g \in 1..NGO |-> FALSE]
        /\ handle = 0
        /\ refusedQuiescent = FALSE
        /\ readySent = 0
        /\ infSent = FALSE
        /\ sentlog = << >>
        (* Process Main *)
        /\ cmd = [c |-> "none", q |-> FALSE]
        /\ gi = 0
        (* Process Search *)
        /\ me = [self \in {<<"s", i>> : i \in 1..NGO} |-> self[2]]
        (* Process Timer *)
        /\ tm = [self \in {<<"t", i>> : i \in 1..NGO} |-> self[2]]
        /\ pc = [self \in ProcSet |-> CASE self = <<"gui", 0>> -> "G"
                                        [] self = <<"main", 0>> -> "M0"
                                        [] self \in {<<"s", i>> : i \in 1..NGO} -> "T0"
                                        [] self \in {<<"t", i>> : i \in 1..NGO} -> "X0"]

G == /\ pc[<<"gui", 0>>] = "G"
     /\ IF sent < MAXCMDS
           THEN /\ \E c \in IF goSent < NGO THEN Cmds ELSE Cmds \ GoCmds:
                     /\ c = "wait" => (goSent > 0 /\ ~infSent)
                     /\ c \in GoCmds => Quiescent
                     /\ pipe' = Append(pipe, [c |-> c, q |-> Quiescent])
                     /\ sentlog' = Append(sentlog, [c |-> c, q |-> Quiescent])
                     /\ sent' = sent + 1
                     /\ IF c \in GoCmds
                           THEN /\ goSent' = goSent + 1
                           ELSE /\ TRUE
                                /\ UNCHANGED goSent
                     /\ IF c = "go_inf"
                           THEN /\ infSent' = TRUE
                           ELSE /\ TRUE
                                /\ UNCHANGED infSent
                     /\ IF c = "isready"
                           THEN /\ readySent' = readySent + 1
                           ELSE /\ TRUE
                                /\ UNCHANGED readySent
                /\ pc' = [pc EXCEPT ![<<"gui", 0>>] = "G"]
           ELSE /\ pc' = [pc EXCEPT ![<<"gui", 0>>] = "Done"]
                /\ UNCHANGED << pipe, sent, goSent, readySent, infSent, 
                                sentlog >>
     /\ UNCHANGED << flag, cur, mutex, game, nver, asked, searched, panicked, 
                     out, goes, kind, started, finished, armed, handle, 
                     refusedQuiescent, cmd, gi, me, tm >>

Gui == G

M0 == /\ pc[<<"main", 0>>] = "M0"
      /\ pipe # << >>
      /\ cmd' = Head(pipe)
      /\ pipe' = Tail(pipe)
      /\ pc' = [pc EXCEPT ![<<"main", 0>>] = "M1"]
      /\ UNCHANGED << sent, goSent, flag, cur, mutex, game, nver, asked, 
                      searched, panicked, out, goes, kind, started, finished, 
                      armed, handle, refusedQuiescent, readySent, infSent, 
                      sentlog, gi, me, tm >>

M1 == /\ pc[<<"main", 0>>] = "M1"
      /\ IF cmd.c = "isready"
            THEN /\ out' = Append(out, <<"readyok">>)
                 /\ pc' = [pc EXCEPT ![<<"main", 0>>] = "M0"]
                 /\ UNCHANGED refusedQuiescent
            ELSE /\ IF cmd.c = "position"
                       THEN /\ IF flag[cur]
                                  THEN /\ out' = Append(out, <<"err_running", cmd.c>>)
                                       /\ IF cmd.q
                                             THEN /\ refusedQuiescent' = TRUE
                                             ELSE /\ TRUE
                                                  /\ UNCHANGED refusedQuiescent
                                       /\ pc' = [pc EXCEPT ![<<"main", 0>>] = "M0"]
                                  ELSE /\ pc' = [pc EXCEPT ![<<"main", 0>>] = "P1"]
                                       /\ UNCHANGED << out, refusedQuiescent >>
                       ELSE /\ IF cmd.c = "show"
                                  THEN /\ IF flag[cur]
                                             THEN /\ out' = Append(out, <<"err_running", cmd.c>>)
                                                  /\ IF cmd.q
                                                        THEN /\ refusedQuiescent' = TRUE
                                                        ELSE /\ TRUE
                                                             /\ UNCHANGED refusedQuiescent
                                                  /\ pc' = [pc EXCEPT ![<<"main", 0>>] = "M0"]
                                             ELSE /\ pc' = [pc EXCEPT ![<<"main", 0>>] = "H1"]
                                                  /\ UNCHANGED << out, 
                                                                  refusedQuiescent >>
                                  ELSE /\ IF cmd.c \in GoCmds
                                             THEN /\ IF flag[cur]
                                                        THEN /\ out' = Append(out, <<"err_running", cmd.c>>)
                                                             /\ IF cmd.q
                                                                   THEN /\ refusedQuiescent' = TRUE
                                                                   ELSE /\ TRUE
                                                                        /\ UNCHANGED refusedQuiescent
                                                             /\ pc' = [pc EXCEPT ![<<"main", 0>>] = "M0"]
                                                        ELSE /\ IF goes < NGO
                                                                   THEN /\ pc' = [pc EXCEPT ![<<"main", 0>>] = "G1"]
                                                                   ELSE /\ pc' = [pc EXCEPT ![<<"main", 0>>] = "M0"]
                                                             /\ UNCHANGED << out, 
                                                                             refusedQuiescent >>
                                             ELSE /\ IF cmd.c = "stop"
                                                        THEN /\ pc' = [pc EXCEPT ![<<"main", 0>>] = "S1"]
                                                        ELSE /\ IF cmd.c = "wait"
                                                                   THEN /\ pc' = [pc EXCEPT ![<<"main", 0>>] = "W1"]
                                                                   ELSE /\ IF cmd.c = "ucinewgame"
                                                                              THEN /\ IF flag[cur]
                                                                                         THEN /\ pc' = [pc EXCEPT ![<<"main", 0>>] = "N1"]
                                                                                         ELSE /\ pc' = [pc EXCEPT ![<<"main", 0>>] = "N3"]
                                                                              ELSE /\ pc' = [pc EXCEPT ![<<"main", 0>>] = "M0"]
                                                  /\ UNCHANGED << out, 
                                                                  refusedQuiescent >>
      /\ UNCHANGED << pipe, sent, goSent, flag, cur, mutex, game, nver, asked, 
                      searched, panicked, goes, kind, started, finished, armed, 
                      handle, readySent, infSent, sentlog, cmd, gi, me, tm >>

P1 == /\ pc[<<"main", 0>>] = "P1"
      /\ mutex = "free"
      /\ mutex' = "main"
      /\ pc' = [pc EXCEPT ![<<"main", 0>>] = "P2"]
      /\ UNCHANGED << pipe, sent, goSent, flag, cur, game, nver, asked, 
                      searched, panicked, out, goes, kind, started, finished, 
                      armed, handle, refusedQuiescent, readySent, infSent, 
                      sentlog, cmd, gi, me, tm >>

P2 == /\ pc[<<"main", 0>>] = "P2"
      /\ nver' = nver + 1
      /\ game' = nver'
      /\ mutex' = "free"
      /\ pc' = [pc EXCEPT ![<<"main", 0>>] = "M0"]
      /\ UNCHANGED << pipe, sent, goSent, flag, cur, asked, searched, panicked, 
                      out, goes, kind, started, finished, armed, handle, 
                      refusedQuiescent, readySent, infSent, sentlog, cmd, gi, 
                      me, tm >>

H1 == /\ pc[<<"main", 0>>] = "H1"
      /\ mutex = "free"
      /\ mutex' = "main"
      /\ pc' = [pc EXCEPT ![<<"main", 0>>] = "H2"]
      /\ UNCHANGED << pipe, sent, goSent, flag, cur, game, nver, asked, 
                      searched, panicked, out, goes, kind, started, finished, 
                      armed, handle, refusedQuiescent, readySent, infSent, 
                      sentlog, cmd, gi, me, tm >>

H2 == /\ pc[<<"main", 0>>] = "H2"
      /\ out' = Append(out, <<"shown", game>>)
      /\ mutex' = "free"
      /\ pc' = [pc EXCEPT ![<<"main", 0>>] = "M0"]
      /\ UNCHANGED << pipe, sent, goSent, flag, cur, game, nver, asked, 
                      searched, panicked, goes, kind, started, finished, armed, 
                      handle, refusedQuiescent, readySent, infSent, sentlog, 
                      cmd, gi, me, tm >>

G1 == /\ pc[<<"main", 0>>] = "G1"
      /\ cur' = goes + 1
      /\ pc' = [pc EXCEPT ![<<"main", 0>>] = "G2"]
      /\ UNCHANGED << pipe, sent, goSent, flag, mutex, game, nver, asked, 
                      searched, panicked, out, goes, kind, started, finished, 
                      armed, handle, refusedQuiescent, readySent, infSent, 
                      sentlog, cmd, gi, me, tm >>

G2 == /\ pc[<<"main", 0>>] = "G2"
      /\ mutex = "free"
      /\ mutex' = "main"
      /\ pc' = [pc EXCEPT ![<<"main", 0>>] = "G3"]
      /\ UNCHANGED << pipe, sent, goSent, flag, cur, game, nver, asked, 
                      searched, panicked, out, goes, kind, started, finished, 
                      armed, handle, refusedQuiescent, readySent, infSent, 
                      sentlog, cmd, gi, me, tm >>

G3 == /\ pc[<<"main", 0>>] = "G3"
      /\ IF game = 0
            THEN /\ out' = Append(out, <<"err_nogame", cmd.c>>)
                 /\ mutex' = "free"
                 /\ pc' = [pc EXCEPT ![<<"main", 0>>] = "M0"]
                 /\ UNCHANGED << game, asked, searched, goes, kind, gi >>
            ELSE /\ goes' = goes + 1
                 /\ gi' = goes'
                 /\ kind' = [kind EXCEPT ![gi'] = cmd.c]
                 /\ asked' = [asked EXCEPT ![gi'] = game]
                 /\ IF TakeGame
                       THEN /\ searched' = [searched EXCEPT ![gi'] = game]
                            /\ game' = 0
                       ELSE /\ TRUE
                            /\ UNCHANGED << game, searched >>
                 /\ pc' = [pc EXCEPT ![<<"main", 0>>] = "G4"]
                 /\ UNCHANGED << mutex, out >>
      /\ UNCHANGED << pipe, sent, goSent, flag, cur, nver, panicked, started, 
                      finished, armed, handle, refusedQuiescent, readySent, 
                      infSent, sentlog, cmd, me, tm >>

G4 == /\ pc[<<"main", 0>>] = "G4"
      /\ IF RaiseFirst
            THEN /\ flag' = [flag EXCEPT ![gi] = TRUE]
            ELSE /\ TRUE
                 /\ flag' = flag
      /\ pc' = [pc EXCEPT ![<<"main", 0>>] = "G5"]
      /\ UNCHANGED << pipe, sent, goSent, cur, mutex, game, nver, asked, 
                      searched, panicked, out, goes, kind, started, finished, 
                      armed, handle, refusedQuiescent, readySent, infSent, 
                      sentlog, cmd, gi, me, tm >>

G5 == /\ pc[<<"main", 0>>] = "G5"
      /\ IF cmd.c = "go_time"
            THEN /\ armed' = [armed EXCEPT ![gi] = TRUE]
            ELSE /\ TRUE
                 /\ armed' = armed
      /\ pc' = [pc EXCEPT ![<<"main", 0>>] = "G6"]
      /\ UNCHANGED << pipe, sent, goSent, flag, cur, mutex, game, nver, asked, 
                      searched, panicked, out, goes, kind, started, finished, 
                      handle, refusedQuiescent, readySent, infSent, sentlog, 
                      cmd, gi, me, tm >>

G6 == /\ pc[<<"main", 0>>] = "G6"
      /\ IF ~RaiseFirst
            THEN /\ flag' = [flag EXCEPT ![gi] = TRUE]
            ELSE /\ TRUE
                 /\ flag' = flag
      /\ pc' = [pc EXCEPT ![<<"main", 0>>] = "G7"]
      /\ UNCHANGED << pipe, sent, goSent, cur, mutex, game, nver, asked, 
                      searched, panicked, out, goes, kind, started, finished, 
                      armed, handle, refusedQuiescent, readySent, infSent, 
                      sentlog, cmd, gi, me, tm >>

G7 == /\ pc[<<"main", 0>>] = "G7"
      /\ started' = [started EXCEPT ![gi] = TRUE]
      /\ handle' = gi
      /\ pc' = [pc EXCEPT ![<<"main", 0>>] = "G8"]
      /\ UNCHANGED << pipe, sent, goSent, flag, cur, mutex, game, nver, asked, 
                      searched, panicked, out, goes, kind, finished, armed, 
                      refusedQuiescent, readySent, infSent, sentlog, cmd, gi, 
                      me, tm >>

G8 == /\ pc[<<"main", 0>>] = "G8"
      /\ mutex' = "free"
      /\ pc' = [pc EXCEPT ![<<"main", 0>>] = "M0"]
      /\ UNCHANGED << pipe, sent, goSent, flag, cur, game, nver, asked, 
                      searched, panicked, out, goes, kind, started, finished, 
                      armed, handle, refusedQuiescent, readySent, infSent, 
                      sentlog, cmd, gi, me, tm >>

S1 == /\ pc[<<"main", 0>>] = "S1"
      /\ flag' = [flag EXCEPT ![cur] = FALSE]
      /\ pc' = [pc EXCEPT ![<<"main", 0>>] = "S2"]
      /\ UNCHANGED << pipe, sent, goSent, cur, mutex, game, nver, asked, 
                      searched, panicked, out, goes, kind, started, finished, 
                      armed, handle, refusedQuiescent, readySent, infSent, 
                      sentlog, cmd, gi, me, tm >>

S2 == /\ pc[<<"main", 0>>] = "S2"
      /\ IF handle # 0
            THEN /\ finished[handle]
                 /\ handle' = 0
            ELSE /\ TRUE
                 /\ UNCHANGED handle
      /\ pc' = [pc EXCEPT ![<<"main", 0>>] = "M0"]
      /\ UNCHANGED << pipe, sent, goSent, flag, cur, mutex, game, nver, asked, 
                      searched, panicked, out, goes, kind, started, finished, 
                      armed, refusedQuiescent, readySent, infSent, sentlog, 
                      cmd, gi, me, tm >>

W1 == /\ pc[<<"main", 0>>] = "W1"
      /\ IF handle # 0
            THEN /\ finished[handle]
                 /\ handle' = 0
                 /\ flag' = [flag EXCEPT ![cur] = FALSE]
            ELSE /\ TRUE
                 /\ UNCHANGED << flag, handle >>
      /\ pc' = [pc EXCEPT ![<<"main", 0>>] = "M0"]
      /\ UNCHANGED << pipe, sent, goSent, cur, mutex, game, nver, asked, 
                      searched, panicked, out, goes, kind, started, finished, 
                      armed, refusedQuiescent, readySent, infSent, sentlog, 
                      cmd, gi, me, tm >>

N3 == /\ pc[<<"main", 0>>] = "N3"
      /\ mutex = "free"
      /\ mutex' = "main"
      /\ pc' = [pc EXCEPT ![<<"main", 0>>] = "N4"]
      /\ UNCHANGED << pipe, sent, goSent, flag, cur, game, nver, asked, 
                      searched, panicked, out, goes, kind, started, finished, 
                      armed, handle, refusedQuiescent, readySent, infSent, 
                      sentlog, cmd, gi, me, tm >>

N4 == /\ pc[<<"main", 0>>] = "N4"
      /\ game' = 0
      /\ mutex' = "free"
      /\ pc' = [pc EXCEPT ![<<"main", 0>>] = "M0"]
      /\ UNCHANGED << pipe, sent, goSent, flag, cur, nver, asked, searched, 
                      panicked, out, goes, kind, started, finished, armed, 
                      handle, refusedQuiescent, readySent, infSent, sentlog, 
                      cmd, gi, me, tm >>

N1 == /\ pc[<<"main", 0>>] = "N1"
      /\ flag' = [flag EXCEPT ![cur] = FALSE]
      /\ pc' = [pc EXCEPT ![<<"main", 0>>] = "N2"]
      /\ UNCHANGED << pipe, sent, goSent, cur, mutex, game, nver, asked, 
                      searched, panicked, out, goes, kind, started, finished, 
                      armed, handle, refusedQuiescent, readySent, infSent, 
                      sentlog, cmd, gi, me, tm >>

N2 == /\ pc[<<"main", 0>>] = "N2"
      /\ finished[handle]
      /\ handle' = 0
      /\ pc' = [pc EXCEPT ![<<"main", 0>>] = "N3"]
      /\ UNCHANGED << pipe, sent, goSent, flag, cur, mutex, game, nver, asked, 
                      searched, panicked, out, goes, kind, started, finished, 
                      armed, refusedQuiescent, readySent, infSent, sentlog, 
                      cmd, gi, me, tm >>

Main == M0 \/ M1 \/ P1 \/ P2 \/ H1 \/ H2 \/ G1 \/ G2 \/ G3 \/ G4 \/ G5
           \/ G6 \/ G7 \/ G8 \/ S1 \/ S2 \/ W1 \/ N3 \/ N4 \/ N1 \/ N2

T0(self) == /\ pc[self] = "T0"
            /\ started[me[self]]
            /\ pc' = [pc EXCEPT ![self] = "T1"]
            /\ UNCHANGED << pipe, sent, goSent, flag, cur, mutex, game, nver, 
                            asked, searched, panicked, out, goes, kind, 
                            started, finished, armed, handle, refusedQuiescent, 
                            readySent, infSent, sentlog, cmd, gi, me, tm >>

T1(self) == /\ pc[self] = "T1"
            /\ mutex = "free"
            /\ mutex' = "search"
            /\ IF ~TakeGame
                  THEN /\ IF game = 0
                             THEN /\ panicked' = TRUE
                                  /\ UNCHANGED searched
                             ELSE /\ searched' = [searched EXCEPT ![me[self]] = game]
                                  /\ UNCHANGED panicked
                  ELSE /\ TRUE
                       /\ UNCHANGED << searched, panicked >>
            /\ pc' = [pc EXCEPT ![self] = "T2"]
            /\ UNCHANGED << pipe, sent, goSent, flag, cur, game, nver, asked, 
                            out, goes, kind, started, finished, armed, handle, 
                            refusedQuiescent, readySent, infSent, sentlog, cmd, 
                            gi, me, tm >>

T2(self) == /\ pc[self] = "T2"
            /\ ~flag[me[self]] \/ kind[me[self]] = "go_depth"
            /\ pc' = [pc EXCEPT ![self] = "T3"]
            /\ UNCHANGED << pipe, sent, goSent, flag, cur, mutex, game, nver, 
                            asked, searched, panicked, out, goes, kind, 
                            started, finished, armed, handle, refusedQuiescent, 
                            readySent, infSent, sentlog, cmd, gi, me, tm >>

T3(self) == /\ pc[self] = "T3"
            /\ IF ClearFirst
                  THEN /\ flag' = [flag EXCEPT ![me[self]] = FALSE]
                  ELSE /\ TRUE
                       /\ flag' = flag
            /\ pc' = [pc EXCEPT ![self] = "T4"]
            /\ UNCHANGED << pipe, sent, goSent, cur, mutex, game, nver, asked, 
                            searched, panicked, out, goes, kind, started, 
                            finished, armed, handle, refusedQuiescent, 
                            readySent, infSent, sentlog, cmd, gi, me, tm >>

T4(self) == /\ pc[self] = "T4"
            /\ out' = Append(out, <<"bestmove", me[self]>>)
            /\ pc' = [pc EXCEPT ![self] = "T5"]
            /\ UNCHANGED << pipe, sent, goSent, flag, cur, mutex, game, nver, 
                            asked, searched, panicked, goes, kind, started, 
                            finished, armed, handle, refusedQuiescent, 
                            readySent, infSent, sentlog, cmd, gi, me, tm >>

T5(self) == /\ pc[self] = "T5"
            /\ IF ~ClearFirst
                  THEN /\ flag' = [flag EXCEPT ![me[self]] = FALSE]
                  ELSE /\ TRUE
                       /\ flag' = flag
            /\ pc' = [pc EXCEPT ![self] = "T6"]
            /\ UNCHANGED << pipe, sent, goSent, cur, mutex, game, nver, asked, 
                            searched, panicked, out, goes, kind, started, 
                            finished, armed, handle, refusedQuiescent, 
                            readySent, infSent, sentlog, cmd, gi, me, tm >>

T6(self) == /\ pc[self] = "T6"
            /\ IF ~TakeGame
                  THEN /\ game' = 0
                  ELSE /\ TRUE
                       /\ game' = game
            /\ mutex' = "free"
            /\ finished' = [finished EXCEPT ![me[self]] = TRUE]
            /\ pc' = [pc EXCEPT ![self] = "Done"]
            /\ UNCHANGED << pipe, sent, goSent, flag, cur, nver, asked, 
                            searched, panicked, out, goes, kind, started, 
                            armed, handle, refusedQuiescent, readySent, 
                            infSent, sentlog, cmd, gi, me, tm >>

Search(self) == T0(self) \/ T1(self) \/ T2(self) \/ T3(self) \/ T4(self)
                   \/ T5(self) \/ T6(self)

X0(self) == /\ pc[self] = "X0"
            /\ armed[tm[self]]
            /\ pc' = [pc EXCEPT ![self] = "X1"]
            /\ UNCHANGED << pipe, sent, goSent, flag, cur, mutex, game, nver, 
                            asked, searched, panicked, out, goes, kind, 
                            started, finished, armed, handle, refusedQuiescent, 
                            readySent, infSent, sentlog, cmd, gi, me, tm >>

X1(self) == /\ pc[self] = "X1"
            /\ flag' = [flag EXCEPT ![tm[self]] = FALSE]
            /\ pc' = [pc EXCEPT ![self] = "Done"]
            /\ UNCHANGED << pipe, sent, goSent, cur, mutex, game, nver, asked, 
                            searched, panicked, out, goes, kind, started, 
                            finished, armed, handle, refusedQuiescent, 
                            readySent, infSent, sentlog, cmd, gi, me, tm >>

Timer(self) == X0(self) \/ X1(self)

Next == Gui \/ Main
           \/ (\E self \in {<<"s", i>> : i \in 1..NGO}: Search(self))
           \/ (\E self \in {<<"t", i>> : i \in 1..NGO}: Timer(self))

Spec == /\ Init /\ [][Next]_vars
        /\ WF_vars(Gui)
        /\ WF_vars(Main)
        /\ \A self \in {<<"s", i>> : i \in 1..NGO} : WF_vars(Search(self))
        /\ \A self \in {<<"t", i>> : i \in 1..NGO} : WF_vars(Timer(self))

\* END TRANSLATION 
=============================================================================
