------------------------------ MODULE Families ------------------------------
(***************************************************************************)
(* Position families enumerated by TLC (spec -> impl).  Membership is      *)
(* decided by Chess!Sane, never by the engine.  Every member is printed as *)
(* a  FEN  line; the harness imports it into the real Game, plays and takes*)
(* back every generated move, and TraceGame.tla judges the observations.   *)
(*                                                                         *)
(*  KXK    every placement of K + one piece v K (and K+P v K+p, K+R v K+r) *)
(*         on the full board, both sides to move                           *)
(*  CASTLE r3k2r/8/8/8/8/8/8/R3K2R skeleton, all 16 right subsets, both    *)
(*         sides to move, one extra piece of either colour on every square *)
(*         (optionally knights on b1/b8): through / out of / into attack   *)
(*  EP     a pawn that has just made a double step beside one or two enemy *)
(*         pawns on every file, the capturing side's king on every square, *)
(*         one enemy slider on every square: every en-passant pin          *)
(*  PROMO  a pawn on the seventh rank with all combinations of capturable  *)
(*         pieces ahead (rooks on home squares with rights), kings on a    *)
(*         grid, both colours                                              *)
(*  FORCED locked positions whose lines never branch: exactly one legal    *)
(*         move for each side, for at least four plies                     *)
(* Stride/Off select a deterministic 1/Stride sample (quick tier).         *)
(***************************************************************************)
EXTENDS Fen, Zobrist, TLC, Json

CONSTANTS Fam, Stride, Off, WantM2

Put(b, s, c) == [b EXCEPT ![s] = c]
Mk(b, stm, cast, ep) == [board |-> b, stm |-> stm, cast |-> cast, ep |-> ep]
Sel(n) == n % Stride = Off
Mix(a, b, c, d) == (((a * 7919 + b * 104729) % 1000003) * 31 + c * 12983 + d * 1549) % 1000003

---------------------------------------------------------------------------
KXKPieces == {"Q", "R", "B", "N", "P", "q", "r", "b", "n", "p"}
KXK(wk) ==
  { Mk(Put(Put(Put(EmptyBoard, wk, "K"), bk, "k"), x, pc), stm, {}, 8) :
      <<bk, x, pc, stm>> \in
        { t \in Sq \X Sq \X KXKPieces \X Sides :
            /\ t[1] # wk /\ t[2] # wk /\ t[1] # t[2] /\ t[1] \notin KingT[wk]
            /\ Sel(Mix(wk, t[1], t[2], PieceIdx(t[3]) * 2 + (IF t[4] = White THEN 0 ELSE 1))) } }

\* two extra pieces: K+P v K+p and K+R v K+r (thorough tier)
KXKY(wk) ==
  { Mk(Put(Put(Put(Put(EmptyBoard, wk, "K"), bk, "k"), x, pp[1]), y, pp[2]), stm, {}, 8) :
      <<bk, x, y, pp, stm>> \in
        { t \in Sq \X Sq \X Sq \X {<<"P", "p">>, <<"R", "r">>} \X Sides :
            /\ Cardinality({wk, t[1], t[2], t[3]}) = 4 /\ t[1] \notin KingT[wk]
            /\ Sel(Mix(wk, t[1], t[2] + 64 * t[3], IF t[5] = White THEN 0 ELSE 1)) } }

\* K + Q/R v K, attacker to move, defender's king on the rim: where the short mates live
MateFam(wk) ==
  { Mk(Put(Put(Put(EmptyBoard, wk, "K"), bk, "k"), x, pc), White, {}, 8) :
      <<bk, x, pc>> \in
        { t \in Sq \X Sq \X {"Q", "R"} :
            /\ t[1] # wk /\ t[2] # wk /\ t[1] # t[2] /\ t[1] \notin KingT[wk]
            /\ (Row(t[1]) \in {0, 7} \/ Col(t[1]) \in {0, 7})
            /\ Sel(Mix(wk, t[1], t[2], PieceIdx(t[3]))) } }
\* the same with colours reversed, and positions where the lone king is to move (dead roots)
Mates(wk) == MateFam(wk) \cup { Mirror(p) : p \in MateFam(wk) } \cup { [p EXCEPT !.stm = Black] : p \in MateFam(wk) }

CastleSkeleton(nb) ==
  LET b0 == Put(Put(Put(Put(Put(Put(EmptyBoard, 0, "R"), 4, "K"), 7, "R"), 56, "r"), 60, "k"), 63, "r")
  IN IF nb THEN Put(Put(b0, 1, "N"), 57, "n") ELSE b0
Castle(x) ==
  { Mk(Put(CastleSkeleton(nb), x, pc), stm, cast, 8) :
      <<pc, stm, cast, nb>> \in
        { t \in (KXKPieces \cup {"."}) \X Sides \X (SUBSET {"K", "Q", "k", "q"}) \X BOOLEAN :
            /\ CastleSkeleton(t[4])[x] = Empty
            /\ Sel(Mix(x, StateByte(t[3], 0), (IF t[1] = "." THEN 12 ELSE PieceIdx(t[1])), (IF t[2] = White THEN 0 ELSE 2) + (IF t[4] THEN 1 ELSE 0))) } }

\* the enemy king itself next to (or on) the castling path: White keeps R3K2R and its rights, the black
\* king stands on x (no black rights), optionally with one more black piece; and the colour mirror
CastleKW(x) ==
  { Mk(Put(Put(Put(Put(Put(EmptyBoard, 0, "R"), 4, "K"), 7, "R"), x, "k"), y, pc), stm, cast, 8) :
      <<y, pc, stm, cast>> \in
        { t \in {8, 15, 33, 62} \X {".", "r", "n", "b"} \X Sides \X ((SUBSET {"K", "Q"}) \ {{}}) :
            /\ x \notin {0, 4, 7} /\ x \notin KingT[4] /\ t[1] # x /\ t[1] \notin {0, 4, 7}
            /\ Sel(Mix(x, t[1], StateByte(t[4], 0), (IF t[2] = "." THEN 12 ELSE PieceIdx(t[2])) * 2 + (IF t[3] = White THEN 0 ELSE 1))) } }
CastleK(x) == CastleKW(x) \cup { Mirror(p) : p \in CastleKW(x) }

\* every double step with an enemy pawn anywhere on the two ranks around the landing square (the file edges
\* included: the neighbour test must not wrap around the board), kings out of the way; and the colour mirror
DPushW(f) ==
  { Mk(Put(Put(Put(Put(EmptyBoard, 60, "k"), wk, "K"), SqOf(1, f), "P"), x, "p"), White, {}, 8) :
      <<x, wk>> \in { t \in ((24..39) \ {SqOf(3, f)}) \X {2, 6} : SqOf(2, f) # t[1] } }
\* an en-passant square whose file also holds a pawn of the side to move on its own fourth rank
\* (the exported en-passant rank must come from the side to move, not from what stands on the file)
EpFileW(f) ==
  { Mk(Put(Put(Put(Put(Put(EmptyBoard, 60, "k"), 2, "K"), SqOf(4, f), "p"), SqOf(4, f + d), "P"), SqOf(3, f), "P"), White, {}, f) :
      d \in { x \in {-1, 1} : f + x \in 0..7 } }
\* a promotion that answers an en-passant-enabling double step: Black to move, its pawn on the seventh rank of file f
\* with a white pawn beside the landing square, and a white pawn ready to promote (with and without capture)
EpPromoW(f) ==
  { Mk(Put(Put(Put(Put(Put(Put(EmptyBoard, 4, "K"), 63, "k"), SqOf(6, f), "p"), SqOf(4, f + d), "P"), SqOf(6, g), "P"), SqOf(7, g + 1), "n"),
       Black, {}, 8) :
      <<d, g>> \in { t \in {-1, 1} \X (0..5) : f + t[1] \in 0..7 /\ t[2] # f /\ t[2] # f + t[1] /\ t[2] + 1 # f } }
DPush(f) == IF f > 7 THEN {}
            ELSE LET W == DPushW(f) \cup EpFileW(f) \cup EpPromoW(f) IN W \cup { Mirror(p) : p \in W }

\* a queen or rook on the ENEMY king's home square that can move to the c- or g-file of that rank while the
\* mover's own king is at home: its move text looks like the opponent's castling text
CastleTextW(x) ==
  { Mk(Put(Put(Put(EmptyBoard, 4, "K"), 60, pc), x, "k"), White, {}, 8) :
      pc \in { q \in {"Q", "R"} : x \notin {4, 60} /\ x \notin KingT[4] } }
CastleText(x) == CastleTextW(x) \cup { Mirror(p) : p \in CastleTextW(x) }

\* White to move, black pawn just played f7-f5 style double step to row 4
EpW(wk) ==
  { Mk(Put(Put(Put(Put(Put(EmptyBoard, wk, "K"), bk, "k"), SqOf(4, f), "p"), sl, sp), SqOf(4, f + d), "P"), White, {}, f) :
      <<f, d, bk, sl, sp>> \in
        { t \in (0..7) \X {-1, 1} \X {63, 56, 0, 23} \X Sq \X {"q", "r", "b", "P", "N"} :
            /\ t[1] + t[2] \in 0..7
            /\ Cardinality({wk, t[3], t[4], SqOf(4, t[1]), SqOf(4, t[1] + t[2])}) = 5
            /\ t[4] \notin {SqOf(5, t[1]), SqOf(6, t[1])}
            /\ t[3] \notin KingT[wk]
            /\ Sel(Mix(wk, t[1] * 2 + (IF t[2] = 1 THEN 1 ELSE 0), t[4], t[3] * 8 + (IF t[5] \in WhitePieces \cup BlackPieces THEN PieceIdx(t[5]) ELSE 0))) } }
Ep(wk) == EpW(wk) \cup { Mirror(p) : p \in EpW(wk) }

PromoAhead == {".", "r", "n", "q"}
AheadIdx(x) == CASE x = "." -> 0 [] x = "r" -> 1 [] x = "n" -> 2 [] x = "q" -> 3
PromoW(f) ==
  { LET b1 == Put(Put(Put(EmptyBoard, wk, "K"), bk, "k"), SqOf(6, f), "P")
        b2 == IF f > 0 /\ b1[SqOf(7, f - 1)] = Empty THEN Put(b1, SqOf(7, f - 1), a[1]) ELSE b1
        b3 == IF b2[SqOf(7, f)] = Empty THEN Put(b2, SqOf(7, f), a[2]) ELSE b2
        b4 == IF f < 7 /\ b3[SqOf(7, f + 1)] = Empty THEN Put(b3, SqOf(7, f + 1), a[3]) ELSE b3
        cast == (IF b4[60] = "k" /\ b4[63] = "r" THEN {"k"} ELSE {}) \cup (IF b4[60] = "k" /\ b4[56] = "r" THEN {"q"} ELSE {})
    IN Mk(b4, White, cast, 8) :
      <<wk, bk, a>> \in
        { t \in {0, 4, 20, 27, 38, 47, 49, 30} \X {60, 62, 58, 43, 37, 24, 15, 34} \X (PromoAhead \X PromoAhead \X PromoAhead) :
            /\ t[1] # t[2] /\ t[2] \notin KingT[t[1]] /\ SqOf(6, f) \notin {t[1], t[2]}
            /\ Sel(Mix(t[1], t[2], f, AheadIdx(t[3][1]) * 16 + AheadIdx(t[3][2]) * 4 + AheadIdx(t[3][3]))) } }
Promo(f) == PromoW(f) \cup { Mirror(p) : p \in PromoW(f) }

\* FORCED: locked positions in which the side to move has exactly one legal move, and so has the other side after it, for
\* at least four plies (kings shuffling behind pawn walls, a walled-in bishop): lines that never branch and never end, where
\* one ply of depth must still cost one ply of the depth limit, of the ply counter and of the state stack.
\* Skeleton: each king in a corner with its own pawns on b/d (or g/e) of its second rank blocked by enemy pawns in front
\* of them, optionally a bishop walled in beside it; the seed adds one more locked pawn pair anywhere.
WallW(b, hside, bishop) ==
  LET k == IF hside THEN 7 ELSE 0   bs == IF hside THEN 5 ELSE 2
      f1 == IF hside THEN 6 ELSE 1  f2 == IF hside THEN 4 ELSE 3
      b1 == Put(Put(Put(Put(Put(b, k, "K"), SqOf(1, f1), "P"), SqOf(1, f2), "P"), SqOf(2, f1), "p"), SqOf(2, f2), "p")
  IN IF bishop THEN Put(b1, bs, "B") ELSE b1
WallB(b, hside, bishop) ==
  LET k == IF hside THEN 63 ELSE 56   bs == IF hside THEN 61 ELSE 58
      f1 == IF hside THEN 6 ELSE 1  f2 == IF hside THEN 4 ELSE 3
      b1 == Put(Put(Put(Put(Put(b, k, "k"), SqOf(6, f1), "p"), SqOf(6, f2), "p"), SqOf(5, f1), "P"), SqOf(5, f2), "P")
  IN IF bishop THEN Put(b1, bs, "b") ELSE b1
RECURSIVE ForcedLine(_, _)
ForcedLine(p, n) ==
  n = 0 \/ (Cardinality(Legal(p)) = 1 /\ ForcedLine(Apply(p, CHOOSE m \in Legal(p) : TRUE), n - 1))
\* members: the forced lines themselves (their root has one move and is answered without a search) and, above all, their
\* parents - roots with a choice of which at least one move enters a forced line (the extra pawn pair one step apart)
Forced(x) ==
  { q \in
      { LET b0 == WallB(WallW(EmptyBoard, t[1], t[3]), t[2], t[4])
            gap == IF t[6] THEN 16 ELSE 8
            b1 == IF Row(x) \in 1..4 /\ b0[x] = Empty /\ b0[x + 8] = Empty /\ b0[x + gap] = Empty
                  THEN Put(Put(b0, x, "P"), x + gap, "p") ELSE b0
        IN Mk(b1, t[5], {}, 8) : t \in BOOLEAN \X BOOLEAN \X BOOLEAN \X BOOLEAN \X Sides \X BOOLEAN } :
      /\ Sane(q)
      /\ \/ ForcedLine(q, 4)
         \/ (Cardinality(Legal(q)) >= 2 /\ \E m \in Legal(q) : ForcedLine(Apply(q, m), 4)) }

---------------------------------------------------------------------------
VARIABLE st
Seeds == IF Fam = "PROMO" THEN 0..7 ELSE Sq
Members(k) == CASE Fam = "KXK" -> KXK(k) [] Fam = "KXKY" -> KXKY(k) [] Fam = "CASTLE" -> Castle(k) \cup CastleK(k)
                [] Fam = "DPUSH" -> DPush(k) [] Fam = "CASTLETEXT" -> CastleText(k) [] Fam = "MATES" -> Mates(k) [] Fam = "EP" -> Ep(k) [] Fam = "PROMO" -> Promo(k)
                [] Fam = "FORCED" -> Forced(k)

Init == st \in { [stage |-> 0, k |-> k] : k \in Seeds }
Next == /\ st.stage = 0
        /\ st' \in { [stage |-> 1, pos |-> p] : p \in { q \in Members(st.k) : Sane(q) } }
Spec == Init /\ [][Next]_st

\* C05 (b), model side: run with VIEW PosView and with VIEW HashView; equal distinct-state counts
\* <=> no two members of the family share a hash
PosView == st
HashView == IF st.stage = 0 THEN <<0, st.k>> ELSE <<1, Hash(st.pos)>>
NoEmit == TRUE

\* the independent solver: dead roots, single-reply roots, mate in one, forced mate in two
PosClass(p) ==
  LET lg == Legal(p) IN
  IF lg = {} THEN (IF InCheck(p.board, p.stm) THEN "mate" ELSE "stale")
  ELSE IF Cardinality(lg) = 1 THEN "only"
  ELSE IF MateIn1Moves(p) # {} THEN "m1"
  ELSE IF WantM2 /\ KeepsMate2Moves(p) # {} THEN "m2"
  ELSE "other"
\* for mate-in-one positions also the mating moves, for others the moves that stalemate the opponent:
\* "search the position, then search the dead position one move later on the same table" scenarios
EmitClass == st.stage = 1 =>
  LET c == PosClass(st.pos)
      m1 == IF c = "m1" THEN { Uci(m) : m \in MateIn1Moves(st.pos) } ELSE {}
      s1 == IF c \in {"other", "m1"} THEN { Uci(m) : m \in { x \in Legal(st.pos) : Stalemate(Apply(st.pos, x)) } } ELSE {}
  IN IF c = "other" /\ s1 = {} THEN TRUE
     ELSE PrintT(<<"POS", IF c = "other" THEN "st1" ELSE c, FenLine(st.pos) \o " 0 1", ToJson([mate |-> m1, stale |-> s1])>>)

Emit == st.stage = 1 => PrintT(<<"FEN", FenLine(st.pos) \o " 0 1">>)
=============================================================================
