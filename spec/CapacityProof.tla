--------------------------- MODULE CapacityProof ---------------------------
(***************************************************************************)
(* C15, unbounded: with the repaired guards the highest index written on   *)
(* the 512-entry state stack stays within the capacity for EVERY game      *)
(* length the interfaces accept and EVERY requested depth (Capacity.tla    *)
(* explores the same arithmetic with TLC for the concrete constants).      *)
(* Checked by TLAPS.                                                       *)
(***************************************************************************)
EXTENDS Integers, TLAPS

Cap == 512
Limit == 400
Margin == 64
QMax == 47
Min(a, b) == IF a < b THEN a ELSE b
Max(a, b) == IF a > b THEN a ELSE b
Room(len) == Max(Cap - len - Margin, 0)
Deepest(len, want) == Min(want, Min(255, Room(len)))
Peak(len, want) == len + Deepest(len, want) + QMax

THEOREM SearchFits ==
  \A len \in Nat, want \in Nat : len < Limit => Peak(len, want) <= Cap
  BY DEF Peak, Deepest, Room, Min, Max, Cap, Limit, Margin, QMax

\* the room never cuts a search that fits anyway: at the maximal accepted length 48 plies are still available
THEOREM RoomAtLimit == Room(Limit - 1) = 49
  BY DEF Room, Max, Cap, Limit, Margin
=============================================================================
