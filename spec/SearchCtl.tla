----------------------------- MODULE SearchCtl -----------------------------
(***************************************************************************)
(* Design-level model of the iterative-deepening driver                    *)
(* (search.rs: get_best_move_until_stop / get_best_move_entry) with the    *)
(* transposition table carried from one `go` to the next.                  *)
(*                                                                         *)
(* One action per step of the code:                                        *)
(*   StartGo    read the cached root entry, choose the starting depth      *)
(*   OnlyMove   a single legal reply is returned without searching         *)
(*   RootHit    the iteration is answered from the table (no flag poll!)   *)
(*   RootSearch a full root search: polls the flag at every node entry,    *)
(*              aborts when the flag is down, else writes the root entry   *)
(*   Report     print info depth; decide whether to go on                   *)
(*   Finish     fall back to a legal move if none was found; bestmove      *)
(*   StopNow    the stop flag goes down (stop command, timer, or the       *)
(*              verification hook after a chosen poll index)               *)
(* Positions are abstract: Moves[r] is the number of legal moves of root r *)
(* (0 = checkmate/stalemate, 1 = single reply, ...), Mating[r] says a      *)
(* search of r reports a mate score.  MaxDepth scales the u8 depth counter *)
(* (255 in the code), KillerSlots scales the killer table.                 *)
(* TLC checks the formulas of C06 C07 C08 for ALL table histories of NGo   *)
(* searches and ALL stop instants, and prints every completed history as a *)
(* scenario (SCN line) that the harness runs on the real search.           *)
(***************************************************************************)
EXTENDS Integers, Sequences, FiniteSets, TLC, Json

CONSTANTS Roots,        \* abstract root positions
          Moves,        \* [Roots -> Nat] number of legal moves
          Mating,       \* [Roots -> BOOLEAN]
          MaxDepth,     \* scaled maximum of the depth counter
          KillerSlots,  \* scaled size of the killer table
          Limits,       \* depth limits offered to go (0 = no limit)
          NGo           \* searches per history

NoEntry == [depth |-> 0, exact |-> FALSE]
NoMove == 0

VARIABLES tt,       \* root -> cached root entry (depth, exact)
          phase,    \* "idle" | "start" | "iter" | "report" | "finish"
          root, limit, d, flag, found, depths, polled, maxply,
          hist      \* completed searches of this history: <<root, limit, stopclass, best>>
vars == <<tt, phase, root, limit, d, flag, found, depths, polled, maxply, hist>>

Min(a, b) == IF a < b THEN a ELSE b
Max(a, b) == IF a > b THEN a ELSE b

Init == /\ tt = [r \in Roots |-> NoEntry]
        /\ phase = "idle" /\ root = (CHOOSE r \in Roots : TRUE) /\ limit = 0 /\ d = 0
        /\ flag = FALSE /\ found = NoMove /\ depths = << >> /\ polled = FALSE /\ maxply = 0
        /\ hist = << >>

StartGo(r, lim) ==
  /\ phase = "idle" /\ Len(hist) < NGo
  /\ root' = r /\ limit' = lim
  /\ LET cached == IF tt[r].exact THEN Max(tt[r].depth, 1) ELSE 1
     IN d' = IF lim > 0 THEN Min(cached, lim) ELSE cached      \* never start deeper than the limit
  /\ flag' = TRUE /\ found' = NoMove /\ depths' = << >> /\ polled' = FALSE /\ maxply' = 0
  /\ phase' = "iter"
  /\ UNCHANGED <<tt, hist>>

\* the stop flag can go down at any instant of a running search
StopNow ==
  /\ phase \in {"iter", "report"} /\ flag
  /\ flag' = FALSE
  /\ UNCHANGED <<tt, phase, root, limit, d, found, depths, polled, maxply, hist>>

OnlyMove ==
  /\ phase = "iter" /\ Moves[root] = 1
  /\ found' = 1 /\ depths' = Append(depths, d) /\ phase' = "finish"
  /\ UNCHANGED <<tt, root, limit, d, flag, polled, maxply, hist>>

RootHit ==
  /\ phase = "iter" /\ Moves[root] # 1
  /\ tt[root].exact /\ tt[root].depth >= d
  /\ found' = IF Moves[root] = 0 THEN NoMove ELSE 1
  /\ depths' = Append(depths, d) /\ phase' = "report"
  /\ UNCHANGED <<tt, root, limit, d, flag, polled, maxply, hist>>

\* a full root search polls the flag (at least once unless the root has no move at all)
RootSearch ==
  /\ phase = "iter" /\ Moves[root] # 1
  /\ ~(tt[root].exact /\ tt[root].depth >= d)
  /\ IF Moves[root] = 0
     THEN /\ tt' = [tt EXCEPT ![root] = [depth |-> d, exact |-> TRUE]]
          /\ found' = NoMove /\ depths' = Append(depths, d) /\ phase' = "report"
          /\ UNCHANGED <<polled, maxply>>
     ELSE /\ polled' = TRUE
          /\ maxply' = Max(maxply, d - 1)                    \* deepest killer slot touched: real_depth <= d - 1
          /\ IF flag
             THEN /\ tt' = [tt EXCEPT ![root] = [depth |-> Max(@.depth, d), exact |-> TRUE]]
                  /\ found' \in 1..Moves[root]
                  /\ depths' = Append(depths, d) /\ phase' = "report"
             ELSE /\ phase' = "finish"                       \* aborted: nothing written at the root
                  /\ UNCHANGED <<tt, found, depths>>
  /\ UNCHANGED <<root, limit, d, flag, hist>>

Report ==
  /\ phase = "report"
  /\ IF (limit > 0 /\ limit <= d) \/ Mating[root] \/ Moves[root] = 0 \/ ~flag \/ d = MaxDepth
     THEN phase' = "finish" /\ d' = d
     ELSE phase' = "iter" /\ d' = d + 1
  /\ UNCHANGED <<tt, root, limit, flag, found, depths, polled, maxply, hist>>

Finish ==
  /\ phase = "finish"
  /\ LET best == IF found = NoMove /\ Moves[root] > 0 THEN 1 ELSE found   \* fallback to a legal move
         stopclass == IF flag THEN "natural" ELSE IF depths = << >> THEN "before-first-iteration" ELSE "later"
     IN hist' = Append(hist, [root |-> root, limit |-> limit, stop |-> stopclass, best |-> best, depths |-> depths])
  /\ phase' = "idle" /\ flag' = FALSE
  /\ UNCHANGED <<tt, root, limit, d, found, depths, polled, maxply>>

Next == \/ \E r \in Roots, lim \in Limits : StartGo(r, lim)
        \/ StopNow \/ OnlyMove \/ RootHit \/ RootSearch \/ Report \/ Finish
Spec == Init /\ [][Next]_vars /\ WF_vars(OnlyMove \/ RootHit \/ RootSearch \/ Report \/ Finish)

---------------------------------------------------------------------------
\* C06 / C07: every completed search announced a legal move, none exactly for dead roots
InvBestLegal == \A i \in DOMAIN hist : IF Moves[hist[i].root] = 0 THEN hist[i].best = NoMove
                                       ELSE hist[i].best \in 1..Moves[hist[i].root]
\* C08: no reported depth exceeds the limit; the depth counter stays in range
InvDepthLimit == /\ \A i \in DOMAIN hist : hist[i].limit > 0 => \A k \in DOMAIN hist[i].depths : hist[i].depths[k] <= hist[i].limit
                 /\ (limit > 0 => \A k \in DOMAIN depths : depths[k] <= limit)
InvCounter == d <= MaxDepth /\ maxply < KillerSlots
\* C08: a limited search ends by itself, an unlimited one ends once the flag is down (or at MaxDepth)
Terminates == (phase # "idle") ~> (phase = "idle")
\* reported depths strictly increase within one search
InvMonotone == \A k \in 1..(Len(depths) - 1) : depths[k] < depths[k + 1]

\* scenario output: one line per completed history (spec -> impl)
EmitScenario == (phase = "idle" /\ Len(hist) = NGo) => PrintT(<<"SCN", ToJson(hist)>>)
View == <<tt, phase, root, limit, d, flag, found, depths, polled, maxply, hist>>
=============================================================================
