----------------------------- MODULE TraceGame -----------------------------
(***************************************************************************)
(* Trace validation of the rules layer (impl -> spec).                     *)
(*                                                                         *)
(* The harness records one ndjson event per call of the real Game object:  *)
(*   new   {fen: chars, ok, o}         text import                         *)
(*   push  {mv, hist, o}               play a generated move (search style *)
(*                                     or into the game record)            *)
(*   pop   {o}                         take the last move back             *)
(*   q     {what, val, o}              a query: move lists, FEN, display   *)
(*   reimp {ok, o, lg}                 import of the game's own FEN        *)
(*   mir   {o}                         the colour-mirrored twin game       *)
(*   panic {msg}                       the engine panicked                 *)
(* where o is the raw projection (snapshot hook) AFTER the call.           *)
(*                                                                         *)
(* One action per event kind.  Each action evaluates the judgements of the *)
(* properties it bears on against the reference modules and reports every  *)
(* failed judgement as a  FAIL  line (property id, event index, detail);   *)
(* the trace is accepted when every event was consumed (POSTCONDITION).    *)
(* After judging, the model position is re-synchronised with the observed  *)
(* one, so that one defect does not cascade and the rest of the trace is   *)
(* still checked.                                                          *)
(***************************************************************************)
EXTENDS Fen, Zobrist, Eval, Show, Json, IOUtils

\* the design-level model of the Game object, in its repaired form
Eng == INSTANCE Engine WITH Rescore <- TRUE

Rec == ndJsonDeserialize(IOEnv.TRACE)

VARIABLES l,      \* index of the next event
          pos,    \* model position (= projection of the last observation)
          prev,   \* last raw observation
          stk,    \* raw observations saved at each push not yet taken back
          recs,   \* expected move-record token sets of the moves played into the record
          eng     \* design level: [e |-> Engine.tla state stepped along the trace, u |-> undo stack, ok |-> in step]
vars == <<l, pos, prev, stk, recs, eng>>

ToSet(q) == { q[i] : i \in DOMAIN q }

PosOf(o) == [board |-> [s \in Sq |-> o.b[s + 1]], stm |-> o.stm, cast |-> ToSet(o.cast), ep |-> o.ep]
NoObs == [none |-> TRUE]
NoPos == [board |-> EmptyBoard, stm |-> White, cast |-> {}, ep |-> 8]

\* a failed judgement
F(ok, prop, what, detail) == IF ok THEN {} ELSE { [p |-> prop, w |-> what, d |-> detail] }
Report(fs) == IF fs = {} THEN TRUE ELSE PrintT(<<"FAIL", l, ToJson(fs)>>)

IsEvent(name) == l <= Len(Rec) /\ Rec[l].ev = name

\* positions that legal play can reach: both kings present, side not to move not in check
Reachable(p) == /\ Cardinality(KingSquares(p.board, White)) = 1
                /\ Cardinality(KingSquares(p.board, Black)) = 1
                /\ ~InCheck(p.board, Other(p.stm))

\* judgements on any raw observation: hash and score are functions of the observed position
RawJudge(o, kprop) ==
  LET p == PosOf(o) IN
     F(o.h = Hash(p), "C04", "hash is not the key-file combination of the position",
       [fen |-> FenLine(p), got |-> o.h, want |-> Hash(p)])
     \cup F(o.sc \in AllowedScores(p.board), "C16", "score is not the piece-square sum",
            [fen |-> FenLine(p), got |-> o.sc, want |-> AllowedScores(p.board)])
     \cup F(HasKing(p.board, White) => o.wk = KingSq(p.board, White), kprop, "white king location", [fen |-> FenLine(p), got |-> o.wk])
     \cup F(HasKing(p.board, Black) => o.bk = KingSq(p.board, Black), kprop, "black king location", [fen |-> FenLine(p), got |-> o.bk])
     \cup F(o.sc = o.cs, "DRIFT", "per-square score cache", [sc |-> o.sc, cs |-> o.cs])

\* fields in which two records differ
Diff(a, b) == [k \in { k \in DOMAIN a : a[k] # b[k] } |-> <<a[k], b[k]>>]

\* the observables of C03
Obs3(o) == [b |-> o.b, stm |-> o.stm, cast |-> ToSet(o.cast), ep |-> o.ep, len |-> o.len,
            wk |-> o.wk, bk |-> o.bk, h |-> o.h, sc |-> o.sc]

NoEng == [e |-> Eng!Blank, u |-> << >>, ok |-> FALSE]
\* design-level conformance: the Engine.tla state must project to the raw observation (never a verdict)
EngDrift(x, o, what) ==
  IF ~x.ok THEN {}
  ELSE LET m == Eng!EngObs(x.e)
           got == [b |-> [s \in Sq |-> o.b[s + 1]], stm |-> o.stm, cast |-> ToSet(o.cast), ep |-> o.ep, len |-> o.len,
                   wk |-> o.wk, bk |-> o.bk, h |-> o.h, sc |-> o.sc, kt |-> o.kt, cs |-> o.cs]
       IN F(m = got /\ o.epraw = o.ep, "DRIFT", "Engine.tla is out of step with the Game object after " \o what,
            IF m = got THEN [epraw |-> o.epraw] ELSE Diff(m, got))

Init == l = 1 /\ pos = NoPos /\ prev = NoObs /\ stk = << >> /\ recs = << >> /\ eng = NoEng

---------------------------------------------------------------------------
New ==
  /\ IsEvent("new")
  /\ LET e == Rec[l]
         cls == Classify(e.fen)
     IN IF e.ok
        THEN LET op == PosOf(e.o)
                 pp == Described(e.fen)      \* = Parse(e.fen) for a well-formed text
             IN /\ Report(
                     F(cls # "MustReject", "C17", "malformed FEN was imported", [fen |-> Str(e.fen), as |-> FenLine(op)])
                     \cup (IF cls = "MustAccept" \/ ImportJudged(e.fen)     \* accepted although it could have been refused: still the described position
                           THEN F(op.board = pp.board /\ op.stm = pp.stm /\ op.cast = pp.cast
                                  /\ op.ep \in {pp.ep, Normalize(pp).ep},
                                  "C17", "well-formed FEN imported as a different position",
                                  [fen |-> Str(e.fen), as |-> FenLine(op)])
                                \cup RawJudge(e.o, "C17")
                                \cup F(pp = StartPos => e.o.h = StartHash, "C04",
                                       "the standard start position does not hash to D9C54592621D7040", [got |-> e.o.h])
                                \cup (IF "lg" \in DOMAIN e
                                      THEN F(ToSet(e.lg) = LegalTexts(Normalize(pp)) /\ Len(e.lg) = Cardinality(ToSet(e.lg)), "C17",
                                             "imported position does not have the legal moves of the described position",
                                             [fen |-> Str(e.fen), missing |-> LegalTexts(Normalize(pp)) \ ToSet(e.lg),
                                              extra |-> ToSet(e.lg) \ LegalTexts(Normalize(pp))])
                                      ELSE {})
                                \cup F("lgpanic" \notin DOMAIN e, "C17", "move generation panicked on an imported well-formed FEN", [fen |-> Str(e.fen)])
                                \cup (IF op = pp /\ cls = "MustAccept" THEN EngDrift([e |-> Eng!Load(pp), u |-> << >>, ok |-> TRUE], e.o, "import") ELSE {})
                           ELSE {}))
                /\ pos' = op /\ prev' = e.o
                /\ eng' = IF cls = "MustAccept" /\ op = pp THEN [e |-> Eng!Load(pp), u |-> << >>, ok |-> TRUE] ELSE NoEng
        ELSE /\ Report(F(cls # "MustAccept", "C17", "well-formed FEN of a sane position was refused",
                         [fen |-> Str(e.fen), err |-> e.err])
                       \cup F(~("panic" \in DOMAIN e /\ e.panic), "C17", "FEN import panicked",
                              [fen |-> Str(e.fen), class |-> cls, err |-> e.err]))
             /\ pos' = NoPos /\ prev' = NoObs /\ eng' = NoEng
  /\ stk' = << >> /\ recs' = << >> /\ l' = l + 1

Push ==
  /\ IsEvent("push")
  /\ LET e == Rec[l]
         op == PosOf(e.o)
         cands == { m \in Pseudo(pos) : Uci(m) = e.mv }
     IN /\ IF cands = {}
           THEN /\ Report(F(FALSE, "C01", "a generated move is not a geometrically valid move",
                            [fen |-> FenLine(pos), mv |-> e.mv]))
                /\ recs' = IF e.hist THEN Append(recs, {}) ELSE recs
                /\ eng' = NoEng
           ELSE LET m == CHOOSE m \in cands : TRUE
                    exp == Apply(pos, m)
                IN /\ Report(
                        F(op = exp, "C02", "position after the move is not the prescribed one",
                          [from |-> FenLine(pos), mv |-> e.mv, want |-> FenLine(exp), got |-> FenLine(op)])
                        \cup RawJudge(e.o, "C02")
                        \cup F(e.o.len = prev.len + 1, "DRIFT", "stack length", [x |-> e.o.len])
                        \cup (IF eng.ok
                              THEN EngDrift([eng EXCEPT !.e = IF e.hist THEN Eng!PushHistory(eng.e, m) ELSE Eng!Push(eng.e, m)], e.o, "push " \o e.mv)
                              ELSE {}))
                   /\ recs' = IF e.hist THEN Append(recs, RecTokens(pos, m)) ELSE recs
                   /\ eng' = IF eng.ok /\ op = exp
                             THEN [e |-> IF e.hist THEN Eng!PushHistory(eng.e, m) ELSE Eng!Push(eng.e, m),
                                   u |-> Append(eng.u, [m |-> m, cap |-> pos.board[m.to]]), ok |-> TRUE]
                             ELSE NoEng
        /\ pos' = op /\ prev' = e.o /\ stk' = Append(stk, prev)
  /\ l' = l + 1

Pop ==
  /\ IsEvent("pop") /\ stk # << >>
  /\ LET e == Rec[l]
         top == stk[Len(stk)]
     IN /\ Report(F(Obs3(e.o) = Obs3(top), "C03", "take-back did not restore the game",
                    [fen |-> FenLine(PosOf(top)), changed |-> Diff(Obs3(top), Obs3(e.o))])
                  \cup F(e.o = top, "DRIFT", "take-back internals", [x |-> 0])
                  \cup (IF eng.ok /\ eng.u # << >>
                        THEN EngDrift([eng EXCEPT !.e = Eng!Pop(eng.e, eng.u[Len(eng.u)].m, eng.u[Len(eng.u)].cap)], e.o, "pop")
                        ELSE {}))
        /\ pos' = PosOf(e.o) /\ prev' = e.o /\ stk' = SubSeq(stk, 1, Len(stk) - 1)
        /\ eng' = IF eng.ok /\ eng.u # << >> /\ Obs3(e.o) = Obs3(top)
                  THEN [e |-> Eng!Pop(eng.e, eng.u[Len(eng.u)].m, eng.u[Len(eng.u)].cap), u |-> SubSeq(eng.u, 1, Len(eng.u) - 1), ok |-> TRUE]
                  ELSE NoEng
  /\ recs' = recs /\ l' = l + 1

Query ==
  /\ IsEvent("q")
  /\ LET e == Rec[l]
         v == e.val
         pure == F(e.o = prev, "C03", "a query changed the game", [what |-> e.what, fen |-> FenLine(pos), changed |-> Diff(Obs3(prev), Obs3(e.o))])
         J == CASE e.what = "lg" ->
                     IF Reachable(pos)
                     THEN F(ToSet(v) = LegalTexts(pos) /\ Len(v) = Cardinality(ToSet(v)), "C01",
                            "checked move list is not exactly the legal moves",
                            [fen |-> FenLine(pos), missing |-> LegalTexts(pos) \ ToSet(v),
                             extra |-> ToSet(v) \ LegalTexts(pos), n |-> Len(v)])
                     ELSE {}
                [] e.what = "ps" ->
                     IF Reachable(pos)
                     THEN F(LegalTexts(pos) \subseteq ToSet(v) /\ ToSet(v) \subseteq PseudoTexts(pos), "C01",
                            "unchecked move list is not between legal and geometrically valid",
                            [fen |-> FenLine(pos), missing |-> LegalTexts(pos) \ ToSet(v),
                             extra |-> ToSet(v) \ PseudoTexts(pos)])
                     ELSE {}
                [] e.what = "fen" ->
                     LET fs == Split(v, " ") IN
                     F(Len(fs) = 6 /\ SyntaxClass(v) = "A", "C11", "exported FEN is not a well-formed six-field FEN", [fen |-> Str(v)])
                     \cup (IF Len(fs) >= 4
                           THEN F(<<Str(fs[1]), Str(fs[2]), Str(fs[3]), Str(fs[4])>> = FenFields(pos), "C11",
                                  "exported FEN does not describe the position", [got |-> Str(v), want |-> FenLine(pos)])
                           ELSE {})
                     \cup (IF SyntaxClass(v) = "A"
                           THEN F(Parse(v) = pos, "C11", "exported FEN parses to a different position", [got |-> Str(v), want |-> FenLine(pos)])
                           ELSE {})
                [] e.what = "dia" ->
                     F(v.hl = prev.h, "C20", "Hash line disagrees with the game", [got |-> v.hl, want |-> prev.h])
                     \cup F(Len(v.fl) >= 4 /\ SubSeq(v.fl, 1, 4) = FenFields(pos), "C20", "Fen line disagrees with the game",
                            [got |-> v.fl, want |-> FenLine(pos)])
                     \cup F(v.rows = DiagramRows(pos.board) /\ v.files = FileLabels, "C20", "diagram disagrees with the game",
                            [got |-> v.rows, want |-> DiagramRows(pos.board)])
                     \cup (LET n == IF Len(v.rec) < Len(recs) THEN Len(v.rec) ELSE Len(recs)
                               bad == { i \in 1..n : v.rec[i] \notin recs[i] }
                           IN F(Len(v.rec) = Len(recs) /\ bad = {}, "C20", "move record does not show what was played",
                                IF bad = {} THEN [shown |-> Len(v.rec), played |-> Len(recs)]
                                ELSE LET i == CHOOSE i \in bad : \A j \in bad : i <= j
                                     IN [index |-> i, got |-> v.rec[i], want |-> recs[i]]))
                [] e.what = "rt" ->
                     F(\A i \in 1..Len(v) : v[i][2], "C12", "move text does not read back as the same move",
                       [fen |-> FenLine(pos), bad |-> { v[i][1] : i \in { j \in 1..Len(v) : ~v[j][2] } }])
                [] OTHER -> F(FALSE, "HARNESS", "unknown query", [what |-> e.what])
     IN Report(pure \cup J)
  /\ prev' = Rec[l].o /\ pos' = PosOf(Rec[l].o)
  /\ UNCHANGED <<stk, recs, eng>> /\ l' = l + 1

Reimp ==
  /\ IsEvent("reimp")
  /\ LET e == Rec[l] IN
     Report(IF e.ok
            THEN F(PosOf(e.o) = pos, "C11", "re-import of the exported FEN gives a different position",
                   [want |-> FenLine(pos), got |-> FenLine(PosOf(e.o))])
                 \cup F(e.o.h = prev.h, "C11", "re-import gives a different hash", [fen |-> FenLine(pos), want |-> prev.h, got |-> e.o.h])
                 \cup (IF Reachable(pos)
                       THEN F(ToSet(e.lg) = LegalTexts(pos), "C11", "re-import gives different legal moves",
                              [fen |-> FenLine(pos), got |-> ToSet(e.lg)])
                       ELSE {})
            ELSE F(FALSE, "C11", "exported FEN was refused on re-import", [fen |-> FenLine(pos), err |-> e.err]))
  /\ UNCHANGED <<pos, prev, stk, recs, eng>> /\ l' = l + 1

Mir ==
  /\ IsEvent("mir")
  /\ LET e == Rec[l] IN
     \* the twin is the same engine fed the colour-mirrored legal moves: if it is not the mirror, one of the two games
     \* was not played by the rules (or an emitted move text did not read back as the move)
     Report(F(PosOf(e.o) = Mirror(pos), "C02", "the colour-mirrored twin game is not the mirror of the game",
              [want |-> FenLine(Mirror(pos)), got |-> FenLine(PosOf(e.o))])
            \cup F(e.o.sc = 0 - prev.sc, "C16", "mirrored position does not have the negated score",
                   [fen |-> FenLine(pos), sc |-> prev.sc, mirror |-> e.o.sc]))
  /\ UNCHANGED <<pos, prev, stk, recs, eng>> /\ l' = l + 1

\* C05 (c): a single-feature variation of a position, imported by the real engine, hashes differently
Var ==
  /\ IsEvent("var")
  /\ LET e == Rec[l]
         okb == SyntaxClass(e.base) = "A" /\ e.b.ok
         okv == SyntaxClass(e.var) = "A" /\ e.v.ok
     IN Report(IF okb /\ okv
               THEN LET pb == Parse(e.base)
                        pv == Parse(e.var)
                    IN F(e.b.h = Hash(pb) /\ e.v.h = Hash(pv), "C04", "imported position's hash is not the key-file combination",
                         [base |-> Str(e.base), var |-> Str(e.var)])
                       \cup F(pb # pv => e.b.h # e.v.h, "C05", "two different positions share a hash",
                              [base |-> Str(e.base), var |-> Str(e.var), hash |-> e.b.h])
               ELSE {})
  /\ UNCHANGED <<pos, prev, stk, recs, eng>> /\ l' = l + 1

\* C12 (b): `position fen F moves <prefix> s` + `show` on the real binary, for ALL strings s of move
\* shape (64 x 64 squares x {"", q, r, b, n}); acc = the strings not answered with an error, each
\* with the position shown afterwards; rej = the distinct positions shown after a refusal.
RECURSIVE ApplyTexts(_, _)
ApplyTexts(p, ts) ==
  IF ts = << >> THEN p
  ELSE LET c == { m \in Legal(p) : Uci(m) = Head(ts) } IN
       IF c = {} THEN NoPos ELSE ApplyTexts(Apply(p, CHOOSE m \in c : TRUE), Tail(ts))

PosMoves ==
  /\ IsEvent("pm")
  /\ LET e == Rec[l]
         base == IF e.fen = <<"startpos">> THEN StartPos ELSE Parse(e.fen)
         p == ApplyTexts(base, e.pre)
         lt == LegalTexts(p)
         accs == { e.acc[i][1] : i \in DOMAIN e.acc }
         Shown(x) == <<x.fl[1], x.fl[2], x.fl[3], x.fl[4]>>
     IN Report(
          F(p # NoPos /\ e.n = 20480, "HARNESS", "prefix not legal or universe incomplete", [n |-> e.n])
          \cup F(e.acc_total > Len(e.acc) \/ lt \subseteq accs, "C12", "the text of a legal move was refused",
                 [fen |-> FenLine(p), refused |-> lt \ accs])
          \cup F(e.acc_total = Cardinality(lt), "C12", "the number of accepted move strings is not the number of legal moves",
                 [fen |-> FenLine(p), accepted |-> e.acc_total, legal |-> Cardinality(lt)])
          \* one record for all strings accepted although they are not the text of a legal move (there may be thousands)
          \cup (LET extra == { i \in DOMAIN e.acc : e.acc[i][1] \notin lt } IN
                IF extra = {} THEN {}
                ELSE LET i0 == CHOOSE i \in extra : \A j \in extra : i <= j IN
                     F(FALSE, "C12", "a string that is not the text of a legal move was accepted",
                       [fen |-> FenLine(p), mv |-> e.acc[i0][1], shown |-> e.acc[i0][2].fl, how_many |-> Cardinality(extra)]))
          \cup UNION { LET s == e.acc[i][1]  x == e.acc[i][2] IN
                       IF s \in lt
                       THEN LET m == CHOOSE m \in Legal(p) : Uci(m) = s
                                q == Apply(p, m)
                            IN F(Len(x.fl) >= 4 /\ Shown(x) = FenFields(q) /\ x.rows = DiagramRows(q.board), "C12",
                                 "an accepted move was not played as that move", [fen |-> FenLine(p), mv |-> s, want |-> FenLine(q), shown |-> x.fl])
                       ELSE {}
                     : i \in DOMAIN e.acc }
          \cup UNION { LET x == e.rej[i] IN
                       F(x.fl = << >> \/ (Len(x.fl) >= 4 /\ Shown(x) = FenFields(p)), "C12",
                         "after refusing a move string the engine shows a different position", [fen |-> FenLine(p), shown |-> x.fl])
                     : i \in DOMAIN e.rej })
  /\ UNCHANGED <<pos, prev, stk, recs, eng>> /\ l' = l + 1

\* C05 (c'): all 16 x 9 combinations of castling rights and en-passant file on one board: pairwise distinct hashes
States ==
  /\ IsEvent("states")
  /\ LET e == Rec[l]
         ok == { i \in DOMAIN e.list : e.list[i][3].ok }
         hs == { e.list[i][3].h : i \in ok }
     IN Report(F(Cardinality(hs) = Cardinality(ok), "C05", "two positions differing only in castling rights / en-passant file share a hash",
                 [base |-> Str(e.base), states |-> Cardinality(ok), hashes |-> Cardinality(hs),
                  example |-> LET bad == { <<i, j>> \in ok \X ok : i < j /\ e.list[i][3].h = e.list[j][3].h } IN
                              IF bad = {} THEN << >>
                              ELSE LET p == CHOOSE p \in bad : TRUE IN << e.list[p[1]][1], e.list[p[1]][2], e.list[p[2]][1], e.list[p[2]][2] >>]))
  /\ UNCHANGED <<pos, prev, stk, recs, eng>> /\ l' = l + 1

\* C17 over UCI: `position fen <text>` + `show` on the real binary; acc = a position was shown afterwards
UciFen ==
  /\ IsEvent("ufen")
  /\ LET e == Rec[l]
         cls == Classify(e.fen)
     IN Report(
          F(~e.died, "C17", "the engine died on a position fen command", [fen |-> Str(e.fen), class |-> cls])
          \cup F(cls = "MustReject" => ~e.acc, "C17", "malformed FEN was accepted by the position command", [fen |-> Str(e.fen), shown |-> e.fl])
          \cup (IF cls = "MustAccept" /\ ~e.died
                THEN LET pp == Parse(e.fen) IN
                     F(e.acc /\ Len(e.fl) >= 4 /\ e.fl[1] = FenFields(pp)[1] /\ e.fl[2] = FenFields(pp)[2] /\ e.fl[3] = FenFields(pp)[3]
                       /\ e.fl[4] \in {FenFields(pp)[4], FenFields(Normalize(pp))[4]},
                       "C17", "well-formed FEN was refused or shown as a different position by the position command",
                       [fen |-> Str(e.fen), shown |-> e.fl])
                ELSE IF ImportJudged(e.fen) /\ e.acc /\ ~e.died      \* may be refused; if shown, it is the described position
                THEN LET pp == Described(e.fen) IN
                     F(Len(e.fl) >= 4 /\ e.fl[1] = FenFields(pp)[1] /\ e.fl[2] = FenFields(pp)[2] /\ e.fl[3] = FenFields(pp)[3]
                       /\ e.fl[4] \in {FenFields(pp)[4], FenFields(Normalize(pp))[4]},
                       "C17", "a FEN with a void castling or en-passant claim was shown as a different position by the position command",
                       [fen |-> Str(e.fen), shown |-> e.fl])
                ELSE {}))
  /\ UNCHANGED <<pos, prev, stk, recs, eng>> /\ l' = l + 1

\* C01 through the command line: `rustybait perft d <fen>` prints a divide (move: count lines and the total)
Divide ==
  /\ IsEvent("divide")
  /\ LET e == Rec[l]
         p == Parse(e.fen)
         lg == Legal(p)
         shown == { e.lines[i][1] : i \in DOMAIN e.lines }
     IN Report(
          F(~e.died, "C01", "the perft command crashed", [fen |-> Str(e.fen)])
          \cup (IF e.died THEN {}
                ELSE F(shown = { Uci(m) : m \in lg } /\ Len(e.lines) = Cardinality(lg), "C01",
                       "the perft divide does not list exactly the legal moves",
                       [fen |-> Str(e.fen), missing |-> { Uci(m) : m \in lg } \ shown, extra |-> shown \ { Uci(m) : m \in lg }])
                     \cup UNION { LET c == { m \in lg : Uci(m) = e.lines[i][1] } IN
                                  IF c = {} THEN {}
                                  ELSE F(e.lines[i][2] = Perft(Apply(p, CHOOSE m \in c : TRUE), e.d - 1), "C01",
                                         "the perft count below a move differs from the number of legal move paths",
                                         [fen |-> Str(e.fen), mv |-> e.lines[i][1], depth |-> e.d, got |-> e.lines[i][2],
                                          want |-> Perft(Apply(p, CHOOSE m \in c : TRUE), e.d - 1)])
                                : i \in DOMAIN e.lines }))
  /\ UNCHANGED <<pos, prev, stk, recs, eng>> /\ l' = l + 1

\* C06 through self-play (`rustybait auto`): successive positions of the printed game are linked by legal moves
SelfPlay ==
  /\ IsEvent("selfplay")
  /\ LET e == Rec[l]
         P(i) == Parse(e.fens[i])
         bad == { i \in 1..(Len(e.fens) - 1) : ~\E m \in Legal(P(i)) : Normalize(Apply(P(i), m)) = Normalize(P(i + 1)) }
     IN Report(F(bad = {}, "C06", "self-play made a move that is not a legal move of the position before it",
                 IF bad = {} THEN [n |-> Len(e.fens)]
                 ELSE LET i == CHOOSE i \in bad : \A j \in bad : i <= j IN [ply |-> i, from |-> Str(e.fens[i]), to |-> Str(e.fens[i + 1])]))
  /\ UNCHANGED <<pos, prev, stk, recs, eng>> /\ l' = l + 1

\* C15: the board with the most generated moves a hill-climbing search over accepted FENs found
Mob ==
  /\ IsEvent("mob")
  /\ Report(F(~Rec[l].panic /\ Rec[l].n <= 256, "C15", "an accepted position overflows the 256-entry move buffer",
              [fen |-> Str(Rec[l].fen), moves |-> Rec[l].n, msg |-> Rec[l].msg]))
  /\ UNCHANGED <<pos, prev, stk, recs, eng>> /\ l' = l + 1

Panic ==
  /\ IsEvent("panic")
  /\ Report(F(FALSE, "PANIC", "the engine panicked", [msg |-> Rec[l].msg, root |-> Rec[l].root]))
  /\ pos' = NoPos /\ prev' = NoObs /\ stk' = << >> /\ recs' = << >> /\ eng' = NoEng /\ l' = l + 1

Next == New \/ Push \/ Pop \/ Query \/ Reimp \/ Mir \/ Var \/ PosMoves \/ States \/ UciFen \/ Divide \/ SelfPlay \/ Mob \/ Panic
Spec == Init /\ [][Next]_vars

\* every event consumed = one state per event plus the initial state
Accepted ==
  IF TLCGet("stats").diameter = Len(Rec) + 1
  THEN PrintT(<<"TRACE-OK", Len(Rec)>>)
  ELSE PrintT(<<"TRACE-STUCK", TLCGet("stats").diameter, Len(Rec)>>) /\ FALSE
=============================================================================
