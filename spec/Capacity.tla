------------------------------ MODULE Capacity ------------------------------
(***************************************************************************)
(* C15, design level: the arithmetic of the unchecked capacities.          *)
(*   len   entries on the per-ply state stack (capacity Cap = 512): 1 for  *)
(*         the imported position + 1 per move played into the game         *)
(* Actions are the ways the interfaces grow the stack:                     *)
(*   Import         `position fen|startpos`           len = 1              *)
(*   PositionMove   one more move of `position ... moves`; the game is     *)
(*                  dropped when len reaches Limit (= 400)                 *)
(*   Go(d)          a search: iterative deepening to depth                 *)
(*                  min(d, 255, Cap - len - Margin), plus up to QMax plies *)
(*                  of capture-only extension below the last ply           *)
(*   SelfPlayMove   `auto`: one more move; the game ends at Limit          *)
(* peak records the highest stack index written.  TLC explores every       *)
(* history (all lengths, all depths 1..255 and unlimited) and checks       *)
(* peak <= Cap.  DepthCap / SelfPlayGuard = FALSE give the pinned code.    *)
(* The histories that come closest to the capacity are then run on the     *)
(* checked build (bounds assertions live) of the real engine.              *)
(***************************************************************************)
EXTENDS Integers, TLC

CONSTANTS Cap, Limit, Margin, QMax, DepthCap, SelfPlayGuard

VARIABLES len, peak, mode   \* mode: "none" | "uci" | "auto"
vars == <<len, peak, mode>>
Min(a, b) == IF a < b THEN a ELSE b
Max(a, b) == IF a > b THEN a ELSE b

Init == len = 0 /\ peak = 0 /\ mode = "none"
Import == /\ len' = 1 /\ peak' = Max(peak, 1) /\ mode' \in {"uci", "auto"}
PositionMove ==
  /\ mode = "uci" /\ len >= 1
  /\ IF len + 1 >= Limit THEN len' = 0 /\ mode' = "none"     \* "Game became too long": game dropped
     ELSE len' = len + 1 /\ mode' = mode
  /\ peak' = Max(peak, len + 1)
Go(d) ==      \* d = 0: unlimited
  /\ mode = "uci" /\ len >= 1
  /\ LET want == IF d = 0 THEN 255 ELSE d
         room == IF Cap - len - Margin > 0 THEN Cap - len - Margin ELSE 0
         deepest == IF DepthCap THEN Min(want, Min(255, room)) ELSE want
     IN peak' = Max(peak, len + deepest + QMax)
  /\ len' = 0 /\ mode' = "none"                               \* the game is consumed by the search
SelfPlayMove ==
  /\ mode = "auto" /\ len >= 1
  /\ LET room == IF Cap - len - Margin > 0 THEN Cap - len - Margin ELSE 0
         deepest == IF DepthCap THEN Min(255, room) ELSE 255
     IN peak' = Max(peak, Max(len + deepest + QMax, len + 1))  \* search, then push_history
  /\ IF SelfPlayGuard /\ len + 1 >= Limit THEN len' = 0 /\ mode' = "none" ELSE len' = len + 1 /\ mode' = mode
\* depth classes: unlimited, and the values around every boundary of the arithmetic
Depths == {0, 1, 2, 47, 48, 49, 50, 64, 111, 112, 113, 114, 200, 254, 255}
Next == Import \/ PositionMove \/ (\E d \in Depths : Go(d)) \/ SelfPlayMove
Spec == Init /\ [][Next]_vars

InvStack == peak <= Cap
\* bound the exploration of the pinned self-play (unbounded growth) so that TLC terminates
Bounded == len <= Cap + 8
=============================================================================
