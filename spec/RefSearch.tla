------------------------------ MODULE RefSearch ------------------------------
(***************************************************************************)
(* C09.  The reference search: plain negamax - no window, no move ordering,*)
(* no table - over an explicit game tree, with exactly the leaf rule the   *)
(* property names:                                                         *)
(*   * at a node with r >= 2 plies to go: the legal moves; none => 0 if    *)
(*     not in check (stalemate), else MIN + 100 + ply (mate by distance)   *)
(*   * at r = 1: every generated move (king captures included); none =>    *)
(*     0 or MIN + 2000 + ply                                               *)
(*   * at r <= 0 (capture-only extension): stand-pat evaluation or any     *)
(*     tactical move; no generated move at all => 0 or MIN + 3000 + ply    *)
(* A node whose side to move has no king (it was just captured) is an      *)
(* ordinary terminal with the mate value.  Trees are dumped from the real  *)
(* engine (its generator and its evaluation), so this module checks the    *)
(* search algorithm, not the rules (C01) or the evaluation (C16).          *)
(* TLC evaluates RefValue on each dumped tree and requires that the score  *)
(* the optimised search returned - for EVERY move-ordering state tried -   *)
(* equals it after clamping mate-range scores; trees containing a          *)
(* capture-extension node that has a king but no generated move are        *)
(* skipped, as the property says.                                          *)
(***************************************************************************)
EXTENDS Integers, Sequences, FiniteSets, TLC, Json, IOUtils

Rec == ndJsonDeserialize(IOEnv.TRACE)

MIN == -32768
Max(S) == CHOOSE x \in S : \A y \in S : y <= x
Term(n, off) == IF n.kx /\ ~n.chk THEN 0 ELSE MIN + off + n.p

RECURSIVE V(_, _)
V(t, i) ==
  LET n == t[i] IN
  IF n.r <= 0
  THEN IF n.nm = 0 THEN Term(n, 3000)
       ELSE Max({n.ev} \cup { 0 - V(t, n.ch[k]) : k \in DOMAIN n.ch })
  ELSE IF n.nm = 0 THEN Term(n, IF n.r = 1 THEN 2000 ELSE 100)
  ELSE Max({ 0 - V(t, n.ch[k]) : k \in DOMAIN n.ch })

RefValue(t) == V(t, 1)
\* mate-range scores (a king is gone or mate is announced) are compared clamped
T == 15000
Clamp(x) == IF x > T THEN T ELSE IF x < 0 - T THEN 0 - T ELSE x
\* the excluded trees: a capture-extension node with a king and no generated move at all
HasMovelessNode(t) == \E i \in DOMAIN t : t[i].r <= 0 /\ t[i].nm = 0 /\ t[i].kx

VARIABLE l
F(ok, prop, what, detail) == IF ok THEN {} ELSE { [p |-> prop, w |-> what, d |-> detail] }
Report(fs) == IF fs = {} THEN TRUE ELSE PrintT(<<"FAIL", l, ToJson(fs)>>)

Init == l = 1
Tree ==
  /\ l <= Len(Rec) /\ Rec[l].ev = "tree"
  /\ LET e == Rec[l] IN
     IF "skip" \in DOMAIN e THEN PrintT(<<"SKIP", l, e.skip>>)
     ELSE IF "panic" \in DOMAIN e THEN Report(F(FALSE, "PANIC", "tree walk panicked", [fen |-> e.fen, msg |-> e.panic]))
     ELSE IF HasMovelessNode(e.nodes) THEN PrintT(<<"SKIP", l, "moveless node">>)
     ELSE IF e.nodes[1].nm <= 1 THEN PrintT(<<"SKIP", l, "root has at most one move">>)
     ELSE LET ref == RefValue(e.nodes) IN
          /\ PrintT(<<"TREE", l, e.n, ref>>)
          /\ Report(UNION {
               LET r == e.runs[k] IN
               IF "panic" \in DOMAIN r THEN F(FALSE, "PANIC", "search panicked", [fen |-> e.fen, d |-> e.d, msg |-> r.panic])
               ELSE IF "aborted" \in DOMAIN r THEN F(FALSE, "HARNESS", "search aborted", [fen |-> e.fen])
               ELSE F(Clamp(r.score) = Clamp(ref), "C09", "optimised search score differs from the exhaustive reference",
                      [fen |-> e.fen, pre |-> e.pre, d |-> e.d, nodes |-> e.n, order |-> r.order, engine |-> r.score, reference |-> ref])
               : k \in DOMAIN e.runs })
  /\ l' = l + 1
\* Window level.  The same search called as an interior node with an arbitrary window (a, b), a < b: what it returns must
\* be consistent with the exhaustive value v of the tree below it - the alpha-beta contract that Pvs.tla establishes for
\* every window of the abstract search (InvValue) and that makes the root value independent of windows:
\*     v <= a  =>  result <= a        v >= b  =>  result >= b        a < v < b  =>  result = v
Contract(v, a, b, r) == IF v <= a THEN r <= a ELSE IF v >= b THEN r >= b ELSE r = v
Win ==
  /\ l <= Len(Rec) /\ Rec[l].ev = "win"
  /\ LET e == Rec[l] IN
     IF "skip" \in DOMAIN e THEN PrintT(<<"SKIP", l, e.skip>>)
     ELSE IF "panic" \in DOMAIN e THEN Report(F(FALSE, "PANIC", "tree walk panicked", [fen |-> e.fen, msg |-> e.panic]))
     ELSE IF HasMovelessNode(e.nodes) THEN PrintT(<<"SKIP", l, "moveless node">>)
     ELSE LET ref == Clamp(RefValue(e.nodes)) IN
          /\ PrintT(<<"WIN", l, e.n, ref, Len(e.runs)>>)
          /\ Report(UNION {
               LET r == e.runs[k] IN
               IF "panic" \in DOMAIN r THEN F(FALSE, "PANIC", "search panicked", [fen |-> e.fen, via |-> e.via, d |-> e.d, msg |-> r.panic])
               ELSE IF "aborted" \in DOMAIN r THEN F(FALSE, "HARNESS", "search aborted", [fen |-> e.fen])
               ELSE F(Contract(ref, r.a, r.b, Clamp(r.score)), "C09",
                      "windowed search result is inconsistent with the exhaustive value of the tree below (the value depends on the window)",
                      [fen |-> e.fen, pre |-> e.pre, via |-> e.via, d |-> e.d, nodes |-> e.n, order |-> r.order,
                       alpha |-> r.a, beta |-> r.b, engine |-> r.score, reference |-> ref,
                       win |-> e.win, seed |-> e.seed, illegal |-> e.illegal])
               : k \in DOMAIN e.runs })
  /\ l' = l + 1
\* Design-level binding of PvsTable.tla (InvSound): after searching a position to depth 1..d on one table, every entry
\* found at an interior node of the tree, of the depth that node has in the tree, must be sound for the exhaustive value
\* of that node: Exact = it, LowerBound <= it, UpperBound >= it (mate-range scores clamped: they depend on the ply at
\* which the position was reached).  Soundness of the table is not one of the listed properties - an unsound entry is a
\* NOTE (pseudo-property DRIFT), the mate searches of C10 and the legality checks of C06 give the verdicts.
Sound(te, v) == CASE te.flag = "exact" -> Clamp(te.score) = v
                  [] te.flag = "lower" -> Clamp(te.score) <= v
                  [] te.flag = "upper" -> Clamp(te.score) >= v
                  [] OTHER -> TRUE
TT ==
  /\ l <= Len(Rec) /\ Rec[l].ev = "tt"
  /\ LET e == Rec[l] IN
     IF "skip" \in DOMAIN e THEN PrintT(<<"SKIP", l, e.skip>>)
     ELSE IF HasMovelessNode(e.nodes) THEN PrintT(<<"SKIP", l, "moveless node">>)
     ELSE LET t == e.nodes
              judged == { i \in DOMAIN t : "te" \in DOMAIN t[i] /\ t[i].te.d = t[i].r }
              bad == { i \in judged : ~Sound(t[i].te, Clamp(V(t, i))) }
          IN /\ PrintT(<<"TT", l, e.n, Cardinality(judged), Cardinality(bad)>>)
             /\ Report(IF bad = {} THEN {}
                       ELSE LET i == CHOOSE i \in bad : TRUE IN
                            F(FALSE, "DRIFT", "a transposition-table entry is not sound for the exhaustive value of its node (PvsTable!InvSound)",
                              [fen |-> e.fen, d |-> e.d, node |-> i, remaining |-> t[i].r, ply |-> t[i].p, entry |-> t[i].te,
                               value |-> Clamp(V(t, i)), unsound_entries |-> Cardinality(bad), judged |-> Cardinality(judged)]))
  /\ l' = l + 1
Next == Tree \/ Win \/ TT
Spec == Init /\ [][Next]_l
Accepted ==
  IF TLCGet("stats").diameter = Len(Rec) + 1
  THEN PrintT(<<"TRACE-OK", Len(Rec)>>)
  ELSE PrintT(<<"TRACE-STUCK", TLCGet("stats").diameter, Len(Rec)>>) /\ FALSE
=============================================================================
