----------------------------- MODULE MC_Zobrist -----------------------------
(***************************************************************************)
(* C05 (a): over the real key table, within every feature class all keys   *)
(* are pairwise distinct and the side key is non-zero.  Since              *)
(* Hash = XOR of one key per feature, changing any single feature of a     *)
(* position (one square's content, the side, the rights/ep state byte)     *)
(* therefore changes Hash.  One state per feature class, exhaustive.       *)
(***************************************************************************)
EXTENDS Zobrist

VARIABLE i      \* 0..63: the contents of square i; 64: the state byte; 65: the side to move
Init == i \in 0..65
Next == UNCHANGED i
Spec == Init /\ [][Next]_i

InvDistinctKeys ==
  IF i < 64 THEN \A c1, c2 \in Contents : c1 # c2 => SquareKey(i, c1) # SquareKey(i, c2)
  ELSE IF i = 64 THEN \A a, b \in 0..255 : a # b => StateKey[a] # StateKey[b]
  ELSE SideKey # Zero4
\* the state byte is injective in (rights, ep file)
InvStateByte ==
  i = 64 => \A c1, c2 \in SUBSET {"K", "Q", "k", "q"} : \A e1, e2 \in 0..8 :
               <<c1, e1>> # <<c2, e2>> => StateByte(c1, e1) # StateByte(c2, e2)
\* README anchor, stated on the model
InvAnchor == i = 65 => Hash(StartPos) = StartHash
=============================================================================
