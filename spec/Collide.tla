------------------------------- MODULE Collide -------------------------------
(***************************************************************************)
(* C05 (b), implementation side: the set of (position, hash) pairs the     *)
(* drivers observed on the real engine is loaded as the set of initial     *)
(* states.  Run twice - VIEW PosView and VIEW HashView: equal numbers of   *)
(* distinct states <=> no two distinct observed positions share a hash.    *)
(* PAIRS (environment): ndjson, one {k: position key, h: [4 limbs]} a line.*)
(***************************************************************************)
EXTENDS Integers, Sequences, Json, IOUtils
Pairs == ndJsonDeserialize(IOEnv.PAIRS)
VARIABLE st
Init == st \in { Pairs[j] : j \in DOMAIN Pairs }
Next == UNCHANGED st
Spec == Init /\ [][Next]_st
PosView == st.k
HashView == st.h
\* a position key must always come with one and the same hash (hash is a function of the position)
=============================================================================
