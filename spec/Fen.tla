-------------------------------- MODULE Fen --------------------------------
(***************************************************************************)
(* Forsyth-Edwards notation: printer (FenFields), grammar (the three-way   *)
(* classifier MustAccept / MustReject / Grey) and parser (Parse).          *)
(* Property-level module.  Text to be parsed arrives as a sequence of      *)
(* one-character strings (TLC strings cannot be indexed); text produced is *)
(* built with \o and compared as whole strings.                            *)
(***************************************************************************)
EXTENDS Chess

---------------------------------------------------------------------------
(* printer: produces sequences of one-character strings; Str() makes the string *)
DigitCh == <<"1","2","3","4","5","6","7","8">>
RECURSIVE Str(_)
Str(cs) == IF cs = << >> THEN "" ELSE Head(cs) \o Str(Tail(cs))

RECURSIVE RankChars(_, _, _, _)
\* text of rank r from column c on, with `run` empty squares pending
RankChars(b, r, c, run) ==
  IF c = 8 THEN (IF run > 0 THEN <<DigitCh[run]>> ELSE << >>)
  ELSE LET p == b[SqOf(r, c)] IN
       IF p = Empty THEN RankChars(b, r, c + 1, run + 1)
       ELSE (IF run > 0 THEN <<DigitCh[run]>> ELSE << >>) \o <<p>> \o RankChars(b, r, c + 1, 0)

PlacementChars(b) ==
  RankChars(b, 7, 0, 0) \o <<"/">> \o RankChars(b, 6, 0, 0) \o <<"/">> \o RankChars(b, 5, 0, 0) \o <<"/">> \o
  RankChars(b, 4, 0, 0) \o <<"/">> \o RankChars(b, 3, 0, 0) \o <<"/">> \o RankChars(b, 2, 0, 0) \o <<"/">> \o
  RankChars(b, 1, 0, 0) \o <<"/">> \o RankChars(b, 0, 0, 0)

CastChars(cast) ==
  IF cast = {} THEN <<"-">>
  ELSE (IF "K" \in cast THEN <<"K">> ELSE << >>) \o (IF "Q" \in cast THEN <<"Q">> ELSE << >>) \o
       (IF "k" \in cast THEN <<"k">> ELSE << >>) \o (IF "q" \in cast THEN <<"q">> ELSE << >>)

\* the en-passant target square: behind the pawn that just moved
EpChars(pos) == IF pos.ep = 8 THEN <<"-">>
                ELSE << FileCh[pos.ep + 1], (IF pos.stm = White THEN "6" ELSE "3") >>

\* the four position fields of the FEN of pos
FenFieldChars(pos) == << PlacementChars(pos.board), <<pos.stm>>, CastChars(pos.cast), EpChars(pos) >>
FenLineChars(pos) == PlacementChars(pos.board) \o <<" ", pos.stm, " ">> \o CastChars(pos.cast) \o <<" ">> \o EpChars(pos)
FenFields(pos) == [i \in 1..4 |-> Str(FenFieldChars(pos)[i])]
FenLine(pos) == Str(FenLineChars(pos))

---------------------------------------------------------------------------
(* splitting *)
Split(s, sep) ==
  LET F[i \in 0..Len(s)] ==
        IF i = 0 THEN << << >> >>
        ELSE LET prev == F[i - 1] IN
             IF s[i] = sep THEN Append(prev, << >>)
             ELSE [prev EXCEPT ![Len(prev)] = Append(@, s[i])]
  IN F[Len(s)]

OtherSpace == {"\t", "\n", "\r", "\f"}
Digits == {"0","1","2","3","4","5","6","7","8","9"}
DigitVal(c) == CASE c = "0" -> 0 [] c = "1" -> 1 [] c = "2" -> 2 [] c = "3" -> 3 [] c = "4" -> 4
                 [] c = "5" -> 5 [] c = "6" -> 6 [] c = "7" -> 7 [] c = "8" -> 8 [] c = "9" -> 9
PieceLetters == WhitePieces \cup BlackPieces
FileIdx(c) == CASE c = "a" -> 0 [] c = "b" -> 1 [] c = "c" -> 2 [] c = "d" -> 3
                [] c = "e" -> 4 [] c = "f" -> 5 [] c = "g" -> 6 [] c = "h" -> 7 [] OTHER -> 8

---------------------------------------------------------------------------
(* per-field classification: "A" well-formed, "R" must be refused, "G" grey *)

\* squares described by one rank text; -1 if it has an unknown character
RECURSIVE RankWidth(_, _)
RankWidth(rk, i) ==
  IF i > Len(rk) THEN 0
  ELSE LET rest == RankWidth(rk, i + 1)
           c == rk[i]
       IN IF rest < 0 THEN -1
          ELSE IF c \in PieceLetters THEN 1 + rest
          ELSE IF c \in Digits \ {"0", "9"} THEN DigitVal(c) + rest
          ELSE -1
AdjacentDigits(rk) == \E i \in 1..(Len(rk) - 1) : rk[i] \in Digits /\ rk[i + 1] \in Digits

PlacementClass(f) ==
  LET ranks == Split(f, "/") IN
  IF Len(ranks) # 8 THEN "R"
  ELSE IF \E i \in 1..8 : RankWidth(ranks[i], 1) # 8 THEN "R"
  ELSE IF \E i \in 1..8 : AdjacentDigits(ranks[i]) THEN "G"
  ELSE "A"

SideClass(f) == IF f = <<"w">> \/ f = <<"b">> THEN "A" ELSE "R"

CastLetters == {"K", "Q", "k", "q"}
CastOrder(c) == CASE c = "K" -> 1 [] c = "Q" -> 2 [] c = "k" -> 3 [] c = "q" -> 4 [] OTHER -> 0
CastClass(f) ==
  IF f = <<"-">> THEN "A"
  ELSE IF \E i \in 1..Len(f) : f[i] \notin CastLetters \cup {"-"} THEN "R"
  ELSE IF \A i \in 1..Len(f) : f[i] \in CastLetters
          /\ \A j \in 1..Len(f) : i < j => CastOrder(f[i]) < CastOrder(f[j])
       THEN "A"
  ELSE "G"       \* duplicates, unusual order, "-" mixed with letters

EpClass(f, side) ==
  IF f = <<"-">> THEN "A"
  ELSE IF Len(f) = 2 /\ FileIdx(f[1]) < 8 /\ f[2] \in {"3", "6"}
       THEN (IF (side = <<"w">> /\ f[2] = "6") \/ (side = <<"b">> /\ f[2] = "3") THEN "A" ELSE "G")
  ELSE "R"

NumClass(f) == IF Len(f) > 0 /\ \A i \in 1..Len(f) : f[i] \in Digits THEN "A" ELSE "G"

\* classes of all fields of a FEN given as a sequence of characters
FieldClasses(chars) ==
  LET fs == Split(chars, " ") IN
  IF \E i \in 1..Len(chars) : chars[i] \in OtherSpace THEN <<"G">>
  ELSE IF \E i \in 1..Len(fs) : fs[i] = << >> THEN <<"G">>   \* leading / trailing / double space
  ELSE IF Len(fs) < 4 THEN <<"R">>
  ELSE << PlacementClass(fs[1]), SideClass(fs[2]), CastClass(fs[3]), EpClass(fs[4], fs[2]) >>
       \o (IF Len(fs) >= 5 THEN <<NumClass(fs[5])>> ELSE << >>)
       \o (IF Len(fs) >= 6 THEN <<NumClass(fs[6])>> ELSE << >>)
       \o (IF Len(fs) >= 7 THEN <<"G">> ELSE << >>)

SyntaxClass(chars) ==
  LET cs == FieldClasses(chars) IN
  IF cs = <<"G">> THEN "G"
  ELSE IF \E i \in 1..Len(cs) : cs[i] = "R" THEN "R"
  ELSE IF \E i \in 1..Len(cs) : cs[i] = "G" THEN "G"
  ELSE "A"

---------------------------------------------------------------------------
(* parser, defined for texts of syntax class "A" *)
RECURSIVE RankCells(_, _)
RankCells(rk, i) ==
  IF i > Len(rk) THEN << >>
  ELSE IF rk[i] \in Digits THEN [k \in 1..DigitVal(rk[i]) |-> Empty] \o RankCells(rk, i + 1)
  ELSE <<rk[i]>> \o RankCells(rk, i + 1)

ParseBoard(f) ==
  LET ranks == Split(f, "/")
      cells == [i \in 1..8 |-> RankCells(ranks[i], 1)]
  IN [s \in Sq |-> cells[8 - Row(s)][Col(s) + 1]]

Parse(chars) ==
  LET fs == Split(chars, " ") IN
  [board |-> ParseBoard(fs[1]),
   stm |-> fs[2][1],
   cast |-> IF fs[3] = <<"-">> THEN {} ELSE { fs[3][i] : i \in 1..Len(fs[3]) },
   ep |-> IF fs[4] = <<"-">> THEN 8 ELSE FileIdx(fs[4][1])]

\* sanity where the en-passant square may be given FIDE-style (after every double step)
SaneFide(pos) ==
  /\ MaterialOK(pos.board)
  /\ Cardinality(KingSquares(pos.board, White)) = 1
  /\ Cardinality(KingSquares(pos.board, Black)) = 1
  /\ \A s \in (0..7) \cup (56..63) : pos.board[s] \notin {"P", "p"}
  /\ ~InCheck(pos.board, Other(pos.stm))
  /\ CastOK(pos)
  /\ (pos.ep < 8 => EpGeom(pos, pos.ep))

\* Texts of well-formed shape whose claims the board contradicts: castling rights whose king or rook is not on its home
\* square (the habitual "KQkq"), an en-passant square that no double step can have left behind (no pawn in front of it,
\* the square or the pawn's origin occupied), or one on the wrong side of the board for the side to move.  Such a text
\* may be refused.  If it is imported, it is still the described board, side and rights, the void en-passant claim is
\* kept or dropped, and the laws say which moves the position has: a right alone does not make a castling move (king and
\* rook must stand on their squares), and no capture goes to an en-passant square that no double step left behind.
SaneBoard(pos) ==
  /\ MaterialOK(pos.board)
  /\ Cardinality(KingSquares(pos.board, White)) = 1
  /\ Cardinality(KingSquares(pos.board, Black)) = 1
  /\ \A s \in (0..7) \cup (56..63) : pos.board[s] \notin {"P", "p"}
  /\ ~InCheck(pos.board, Other(pos.stm))
EpWrongSide(chars) == LET fc == FieldClasses(chars) IN Len(fc) >= 4 /\ fc[4] = "G"
Described(chars) == LET p == Parse(chars) IN IF EpWrongSide(chars) THEN [p EXCEPT !.ep = 8] ELSE p
\* A castling field made of castling letters only, but with a letter repeated or in an unusual order ("KK", "QK"): it
\* may be refused; if it is imported, the rights are the letters it names - a repeated letter names nothing new (Parse
\* takes the set of letters), so "KK" imported as "Q" or "-" is an altered right.
CastLettersOnly(chars) == LET f == Split(chars, " ")[3] IN \A i \in 1..Len(f) : f[i] \in CastLetters
ImportJudged(chars) ==
  LET fc == FieldClasses(chars) IN
  /\ Len(fc) >= 4
  /\ \A i \in 1..Len(fc) : fc[i] = "A" \/ (i = 4 /\ fc[i] = "G") \/ (i = 3 /\ fc[i] = "G" /\ CastLettersOnly(chars))
  /\ SaneBoard(Described(chars))

\* the engine-convention reading of a position: ep kept only when capturable
Normalize(pos) ==
  [pos EXCEPT !.ep = IF pos.ep < 8 /\ EpGeom(pos, pos.ep) /\ EpCapturable(pos, pos.ep)
                     THEN pos.ep ELSE 8]

\* the verdict classes of the import property
Classify(chars) ==
  LET sc == SyntaxClass(chars) IN
  IF sc = "R" THEN "MustReject"
  ELSE IF sc = "G" THEN "Grey"
  ELSE IF SaneFide(Parse(chars)) THEN "MustAccept" ELSE "Grey"
=============================================================================
