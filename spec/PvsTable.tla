------------------------------ MODULE PvsTable ------------------------------
(***************************************************************************)
(* Design level: the transposition table of get_best_move_score - probe    *)
(* with bound kinds, store with the flag rule, replacement rule - on       *)
(* abstract trees WITH transpositions (two nodes with the same key are the *)
(* same position and have the same subtree), threaded through one search   *)
(* as the code threads `table`.                                            *)
(*                                                                         *)
(*   Probe   an entry at least as deep as the node: Exact -> its score;    *)
(*           LowerBound with score >= beta -> score; UpperBound with       *)
(*           score <= alpha -> score; otherwise search on                  *)
(*   Store   flag = UpperBound if best <= alpha0, LowerBound if best >=     *)
(*           beta, else Exact; an existing entry is replaced if it is      *)
(*           shallower, or equally deep and the new one is Exact           *)
(* (StrictLower = TRUE selects a seeded variant, `best > beta`, under      *)
(* which a node failing high exactly on beta is stored as Exact.)          *)
(*                                                                         *)
(* Checked by TLC for all trees of the shapes below, all leaf values, all  *)
(* windows:                                                                *)
(*   InvValue   the value returned with the table equals the value without *)
(*              it, i.e. Clamp(Negamax(t), a, b)                           *)
(*   InvSound   every entry left in the table is sound: Exact = the        *)
(*              negamax value of its position, LowerBound <= it,           *)
(*              UpperBound >= it                                           *)
(* Depth-1 nodes and leaves do not use the table (as in the code).         *)
(***************************************************************************)
EXTENDS Integers, Sequences, FiniteSets, TLC

CONSTANTS V, Shape, StrictLower

INF == 100
MCV3 == (0 - 1)..1
Max2(a, b) == IF a > b THEN a ELSE b
Clamp(x, a, b) == IF x <= a THEN a ELSE IF x >= b THEN b ELSE x

\* a leaf is [v |-> value]; an interior node [key |-> position id, ch |-> <<subtrees>>]
L(x) == [v |-> x]
N(k, seq) == [key |-> k, ch |-> seq]
IsLeaf(t) == "v" \in DOMAIN t
AllLeaves(t) == \A i \in DOMAIN t.ch : IsLeaf(t.ch[i])

RECURSIVE Negamax(_)
Negamax(t) == IF IsLeaf(t) THEN t.v
              ELSE LET vals == { 0 - Negamax(t.ch[i]) : i \in DOMAIN t.ch } IN CHOOSE x \in vals : \A y \in vals : y <= x
RECURSIVE Height(_)
Height(t) == IF IsLeaf(t) THEN 0
             ELSE 1 + (LET hs == { Height(t.ch[i]) : i \in DOMAIN t.ch } IN CHOOSE x \in hs : \A y \in hs : y <= x)

Leaf(v, a, b) == LET a2 == Max2(a, v) IN IF a2 >= b THEN b ELSE a2
RECURSIVE D1Loop(_, _, _, _)
D1Loop(t, i, a, b) ==
  IF i > Len(t.ch) THEN a
  ELSE LET score == 0 - Leaf(t.ch[i].v, 0 - b, 0 - a)
           a2 == IF score > a THEN score ELSE a
       IN IF a2 >= b THEN a2 ELSE D1Loop(t, i + 1, a2, b)

\* table: function from keys to entries [d, flag, score]; NoEntry marks absence
NoEntry == [d |-> 0 - 1, flag |-> "none", score |-> 0]

RECURSIVE NodeT(_, _, _, _), LoopT(_, _, _, _, _)
\* returns [val, tt]
ChildT(t, a, b, tt) ==
  IF IsLeaf(t) THEN [val |-> Leaf(t.v, a, b), tt |-> tt]
  ELSE IF AllLeaves(t) THEN [val |-> D1Loop(t, 1, a, b), tt |-> tt]
  ELSE NodeT(t, a, b, tt)

\* st = [a, best, tt]
LoopT(t, i, st, b, a0) ==
  IF i > Len(t.ch) THEN st
  ELSE LET st2 ==
         IF i <= 3
         THEN LET r == ChildT(t.ch[i], 0 - b, 0 - st.a, st.tt)
                  score == 0 - r.val
              IN [a |-> Max2(st.a, score), best |-> IF score > st.best THEN score ELSE st.best, tt |-> r.tt]
         ELSE LET r1 == ChildT(t.ch[i], 0 - st.a - 1, 0 - st.a, st.tt)
                  test == 0 - r1.val
              IN IF test > st.best
                 THEN LET r2 == ChildT(t.ch[i], 0 - b, 0 - test, r1.tt)
                          score == 0 - r2.val
                      IN [a |-> Max2(st.a, score), best |-> score, tt |-> r2.tt]
                 ELSE [st EXCEPT !.tt = r1.tt]
       IN IF st2.a >= b THEN st2 ELSE LoopT(t, i + 1, st2, b, a0)

NodeT(t, a, b, tt) ==
  LET e == tt[t.key]
      depth == Height(t)
      hit == e.d >= depth /\ (e.flag = "exact" \/ (e.flag = "lower" /\ e.score >= b) \/ (e.flag = "upper" /\ e.score <= a))
  IN IF hit THEN [val |-> e.score, tt |-> tt]
     ELSE LET st == LoopT(t, 1, [a |-> a, best |-> 0 - INF - 1, tt |-> tt], b, a)
              flag == IF st.best <= a THEN "upper"
                      ELSE IF (IF StrictLower THEN st.best > b ELSE st.best >= b) THEN "lower" ELSE "exact"
              new == [d |-> depth, flag |-> flag, score |-> st.best]
              old == st.tt[t.key]
              keep == old.d > depth \/ (old.d = depth /\ flag # "exact")
          IN [val |-> st.a, tt |-> IF keep /\ old.d >= 0 THEN st.tt ELSE [st.tt EXCEPT ![t.key] = new]]

---------------------------------------------------------------------------
\* trees with transpositions: the root has three children; the first and the third are the SAME position (key 1),
\* the second another one (key 2); each has four depth-1 children (probe / re-search path) over two leaves
D1(q) == [ch |-> q]
LeafSeqs(n) == { [i \in 1..n |-> L(f[i])] : f \in [1..n -> V] }
Sub(k, q) == N(k, [i \in 1..4 |-> D1(q[i])])
Quads == [1..4 -> LeafSeqs(1)]
Trees ==
  CASE Shape = "shared" -> { N(0, << Sub(1, x), Sub(2, y), Sub(1, x) >>) : x \in Quads, y \in Quads }
    [] Shape = "deep"   -> { N(0, << N(3, << Sub(1, x), Sub(2, y) >>), N(4, << Sub(2, y), Sub(1, x) >>) >>) : x \in Quads, y \in Quads }
Keys == 0..4
Windows == { w \in (V \cup {0 - INF, INF}) \X (V \cup {0 - INF, INF}) : w[1] < w[2] }

RECURSIVE NodesOf(_)
NodesOf(t) == IF IsLeaf(t) \/ AllLeaves(t) THEN {} ELSE {t} \cup UNION { NodesOf(t.ch[i]) : i \in DOMAIN t.ch }

VARIABLES t, w
Init == t \in Trees /\ w \in Windows
Next == UNCHANGED <<t, w>>
Spec == Init /\ [][Next]_<<t, w>>

Result == NodeT(t, w[1], w[2], [k \in Keys |-> NoEntry])
InvValue == Result.val = Clamp(Negamax(t), w[1], w[2])
InvSound ==
  \A n \in NodesOf(t) :
    LET e == Result.tt[n.key] IN
    e.d >= 0 => CASE e.flag = "exact" -> e.score = Negamax(n)
                  [] e.flag = "lower" -> e.score <= Negamax(n)
                  [] e.flag = "upper" -> e.score >= Negamax(n)
=============================================================================
