------------------------------- MODULE Engine -------------------------------
(***************************************************************************)
(* Design-level model of the Game object (chess/mod.rs): make / unmake     *)
(* with the INCREMENTALLY maintained hash, score, per-square caches, king  *)
(* cache, king-table phase and the per-ply state stack - one operator per  *)
(* code path:                                                              *)
(*   SetSq       set_position: the only place board, caches, hash and      *)
(*               score change (xor out / subtract the cached value of the  *)
(*               square, store, xor in / add the new value)                *)
(*   Load        Game::new: squares filled one by one, side key, state key,*)
(*               then update_phase                                         *)
(*   Push / Pop  per move kind (normal, promotion, en passant, castling),  *)
(*               king cache, castling-right and en-passant bookkeeping,    *)
(*               side key toggle, state key swap, stack push / truncate    *)
(*   UpdatePhase switch to the endgame king table (once) and re-score both *)
(*               kings                                                     *)
(*   PushHistory update_phase then push (moves played into the record)     *)
(* The state is one record e.  TLC explores nested Push / Pop / PushHistory*)
(* from a set of roots and checks in every state that the incremental      *)
(* values equal the reference functions: hash = Zobrist!Hash(position),    *)
(* score = Eval!ScoreWith(board, king table), caches consistent, king      *)
(* cache right, position = Chess!Apply along the way, Pop o Push = Id.     *)
(* TraceGame.tla steps this model along every recorded trace of the real   *)
(* Game and reports any difference as model drift (never a verdict).       *)
(***************************************************************************)
EXTENDS Fen, Zobrist, Eval

CONSTANT Rescore    \* TRUE: update_phase re-scores both kings when it switches the table (repaired); FALSE: pinned code

\* e = [board, stm, stack : Seq([cast, ep]), hash, score, kt, wk, bk, psc, phs]
Top(e) == e.stack[Len(e.stack)]
PosOfE(e) == [board |-> e.board, stm |-> e.stm, cast |-> Top(e).cast, ep |-> Top(e).ep]
StKey(st) == StateKey[StateByte(st.cast, st.ep)]

SetSq(e, s, c) ==
  LET v == PieceValue(c, s, e.kt)
      k == SquareKey(s, c)
  IN [e EXCEPT !.hash = X4(X4(@, e.phs[s]), k),
               !.score = @ - e.psc[s] + v,
               !.board[s] = c, !.psc[s] = v, !.phs[s] = k]

\* update_phase: once, when the material is below the threshold
UpdatePhase(e) ==
  IF e.kt = "m" /\ IsEndgame(e.board, e.kt)
  THEN LET e1 == [e EXCEPT !.kt = "e"]
           e2 == SetSq(e1, e1.wk, e1.board[e1.wk])      \* whatever stands on the cached king squares is re-scored
           e3 == SetSq(e2, e2.bk, e2.board[e2.bk])
       IN IF Rescore THEN e3 ELSE e1
  ELSE e

RECURSIVE FillFrom(_, _, _)
FillFrom(e, b, s) == IF s = 64 THEN e ELSE FillFrom(SetSq(e, s, b[s]), b, s + 1)

Blank == [board |-> EmptyBoard, stm |-> White, stack |-> << >>, hash |-> Zero4, score |-> 0, kt |-> "m",
          wk |-> 0, bk |-> 0, psc |-> [s \in Sq |-> 0], phs |-> [s \in Sq |-> Zero4]]

\* Game::new for a position p (hash starts at 0: every square is xor-ed in once, empty ones with the empty key)
Load(p) ==
  LET e0 == FillFrom(Blank, p.board, 0)
      st == [cast |-> p.cast, ep |-> p.ep]
      e1 == [e0 EXCEPT !.stm = p.stm, !.wk = KingSq(p.board, White), !.bk = KingSq(p.board, Black),
                       !.hash = X4(X4(e0.hash, IF p.stm = Black THEN SideKey ELSE Zero4), StKey(st)),
                       !.stack = << st >>]
  IN UpdatePhase(e1)

\* castling rights lost by a move (as the code decides them: by mover, origin and captured rook's square)
LostRights(b, side, m) ==
  (IF b[m.from] = Pc(side, "K") THEN (IF side = White THEN {"K", "Q"} ELSE {"k", "q"}) ELSE {})
  \cup (IF b[m.from] \in {"R", "r"} THEN (IF m.from = 0 THEN {"Q"} ELSE IF m.from = 7 THEN {"K"} ELSE IF m.from = 56 THEN {"q"} ELSE IF m.from = 63 THEN {"k"} ELSE {}) ELSE {})
  \cup (IF b[m.to] = "R" THEN (IF m.to = 0 THEN {"Q"} ELSE IF m.to = 7 THEN {"K"} ELSE {}) ELSE {})
  \cup (IF b[m.to] = "r" THEN (IF m.to = 56 THEN {"q"} ELSE IF m.to = 63 THEN {"k"} ELSE {}) ELSE {})

Push(e, m) ==
  LET b == e.board
      side == e.stm
      r == Row(m.from)
      mover == IF m.promo # "" THEN Pc(side, m.promo) ELSE b[m.from]
      e1 == CASE m.kind = "ep"  -> SetSq(SetSq(SetSq(e, SqOf(r, Col(m.to)), Empty), m.from, Empty), m.to, mover)
              [] m.kind = "OO"  -> SetSq(SetSq(SetSq(SetSq(e, SqOf(r, 7), Empty), m.from, Empty), SqOf(r, 5), Pc(side, "R")), m.to, mover)
              [] m.kind = "OOO" -> SetSq(SetSq(SetSq(SetSq(e, SqOf(r, 0), Empty), m.from, Empty), SqOf(r, 3), Pc(side, "R")), m.to, mover)
              [] OTHER          -> SetSq(SetSq(e, m.from, Empty), m.to, mover)
      isKing == b[m.from] = Pc(side, "K")
      cast2 == IF m.kind \in {"OO", "OOO"} THEN Top(e).cast \ (IF side = White THEN {"K", "Q"} ELSE {"k", "q"})
               ELSE Top(e).cast \ LostRights(b, side, m)
      c == Col(m.to)
      adj == { SqOf(Row(m.to), cc) : cc \in {c - 1, c + 1} \cap 0..7 }
      ep2 == IF m.kind = "dp" /\ \E a \in adj : e1.board[a] = Pc(Other(side), "P") THEN c ELSE 8
      st2 == [cast |-> cast2, ep |-> ep2]
  IN [e1 EXCEPT !.wk = IF isKing /\ side = White THEN m.to ELSE @,
                !.bk = IF isKing /\ side = Black THEN m.to ELSE @,
                !.stm = Other(side),
                !.hash = X4(X4(X4(e1.hash, SideKey), StKey(Top(e))), StKey(st2)),
                !.stack = Append(e.stack, st2)]

\* take back move m that was played when the board was `before` (the captured piece is carried in the move in the code)
Pop(e, m, captured) ==
  LET side == Other(e.stm)
      r == Row(m.from)
      pawn == Pc(side, "P")
      e0 == [e EXCEPT !.hash = X4(X4(X4(@, StKey(Top(e))), StKey(e.stack[Len(e.stack) - 1])), SideKey),
                      !.stack = SubSeq(e.stack, 1, Len(e.stack) - 1),
                      !.stm = side]
      mover == e.board[m.to]
      e1 == CASE m.kind = "ep"  -> SetSq(SetSq(SetSq(e0, m.to, Empty), SqOf(r, Col(m.to)), Pc(Other(side), "P")), m.from, pawn)
              [] m.kind = "OO"  -> SetSq(SetSq(SetSq(SetSq(e0, SqOf(r, 5), Empty), m.to, Empty), SqOf(r, 7), Pc(side, "R")), m.from, Pc(side, "K"))
              [] m.kind = "OOO" -> SetSq(SetSq(SetSq(SetSq(e0, SqOf(r, 3), Empty), m.to, Empty), SqOf(r, 0), Pc(side, "R")), m.from, Pc(side, "K"))
              [] m.promo # ""   -> SetSq(SetSq(e0, m.from, pawn), m.to, captured)
              [] OTHER          -> SetSq(SetSq(e0, m.from, mover), m.to, captured)
      wasKing == m.kind \in {"OO", "OOO"} \/ (m.promo = "" /\ m.kind # "ep" /\ mover = Pc(side, "K"))
  IN [e1 EXCEPT !.wk = IF wasKing /\ side = White THEN m.from ELSE @,
                !.bk = IF wasKing /\ side = Black THEN m.from ELSE @]

PushHistory(e, m) == Push(UpdatePhase(e), m)

---------------------------------------------------------------------------
(* what the implementation-shaped state must satisfy (checked by TLC in MC_Engine) *)
Consistent(e) ==
  /\ e.hash = Hash(PosOfE(e))
  /\ e.score = ScoreWith(e.board, e.kt)
  /\ \A s \in Sq : e.psc[s] = PieceValue(e.board[s], s, e.kt) /\ e.phs[s] = SquareKey(s, e.board[s])
  /\ (HasKing(e.board, White) => e.wk = KingSq(e.board, White))
  /\ (HasKing(e.board, Black) => e.bk = KingSq(e.board, Black))

RECURSIVE SumSeqFn(_, _)
SumSeqFn(f, s) == IF s = 64 THEN 0 ELSE f[s] + SumSeqFn(f, s + 1)
\* the projection compared with the raw snapshot of the real Game
EngObs(e) == [b |-> e.board, stm |-> e.stm, cast |-> Top(e).cast, ep |-> Top(e).ep, len |-> Len(e.stack),
              wk |-> e.wk, bk |-> e.bk, h |-> e.hash, sc |-> e.score, kt |-> e.kt, cs |-> SumSeqFn(e.psc, 0)]
=============================================================================
