------------------------------- MODULE Chess -------------------------------
(***************************************************************************)
(* The laws of chess as TLA+ operators over an 8x8 board, and as a state   *)
(* machine (Init \in Roots, Next = play a legal move).                     *)
(*                                                                         *)
(* Property-level (reference) module: nothing here is derived from the     *)
(* engine's code.  Squares are 0..63 with sq = rank*8 + file (a1 = 0,      *)
(* h8 = 63).  A board is a function [0..63 -> piece letter or "."].        *)
(* A position is [board, stm \in {"w","b"}, cast \subseteq {"K","Q","k",   *)
(* "q"}, ep \in 0..8] where ep is the FILE of a pawn that has just made a  *)
(* double step and stands beside an enemy pawn (8 = none).                 *)
(* A move is [from, to, promo \in {"","Q","R","B","N"}, kind] with kind    *)
(* "n" ordinary (incl. captures and promotions), "dp" double pawn push,    *)
(* "ep" en-passant capture, "OO"/"OOO" castling (from/to = king squares).  *)
(***************************************************************************)
EXTENDS Integers, Sequences, FiniteSets, TLC

Sq == 0..63
Row(s) == s \div 8
Col(s) == s % 8
SqOf(r, c) == r * 8 + c
OnBoard(r, c) == r \in 0..7 /\ c \in 0..7

White == "w"
Black == "b"
Sides == {White, Black}
Other(side) == IF side = White THEN Black ELSE White

WhitePieces == {"P", "N", "B", "R", "Q", "K"}
BlackPieces == {"p", "n", "b", "r", "q", "k"}
Empty == "."
Contents == WhitePieces \cup BlackPieces \cup {Empty}
PiecesOf(side) == IF side = White THEN WhitePieces ELSE BlackPieces
Kinds == {"P", "N", "B", "R", "Q", "K"}
LowerOf == [k \in Kinds |-> CASE k = "P" -> "p" [] k = "N" -> "n" [] k = "B" -> "b"
                              [] k = "R" -> "r" [] k = "Q" -> "q" [] k = "K" -> "k"]
Pc(side, kind) == IF side = White THEN kind ELSE LowerOf[kind]
KindOf(p) == CASE p \in {"P","p"} -> "P" [] p \in {"N","n"} -> "N" [] p \in {"B","b"} -> "B"
               [] p \in {"R","r"} -> "R" [] p \in {"Q","q"} -> "Q" [] p \in {"K","k"} -> "K"
SideOf(p) == IF p \in WhitePieces THEN White ELSE Black

Dirs == <<  <<0,1>>, <<0,-1>>, <<1,0>>, <<-1,0>>, <<1,1>>, <<-1,-1>>, <<1,-1>>, <<-1,1>> >>
OrthDirs == 1..4
DiagDirs == 5..8

RECURSIVE RayFrom(_, _, _, _)
RayFrom(r, c, dr, dc) ==
  IF OnBoard(r + dr, c + dc)
  THEN <<SqOf(r + dr, c + dc)>> \o RayFrom(r + dr, c + dc, dr, dc)
  ELSE << >>

\* Ray[s][d] = the squares met when leaving s in direction d, nearest first
Ray == [s \in Sq |-> [d \in 1..8 |-> RayFrom(Row(s), Col(s), Dirs[d][1], Dirs[d][2])]]

KnightDeltas == { <<1,2>>, <<2,1>>, <<-1,-2>>, <<-2,-1>>, <<1,-2>>, <<-2,1>>, <<-1,2>>, <<2,-1>> }
KingDeltas == { <<0,1>>, <<0,-1>>, <<1,0>>, <<-1,0>>, <<1,1>>, <<-1,-1>>, <<1,-1>>, <<-1,1>> }
Targets(s, deltas) ==
  { SqOf(Row(s) + d[1], Col(s) + d[2]) :
      d \in { e \in deltas : OnBoard(Row(s) + e[1], Col(s) + e[2]) } }
KnightT == [s \in Sq |-> Targets(s, KnightDeltas)]
KingT == [s \in Sq |-> Targets(s, KingDeltas)]
\* squares from which a pawn of `side` attacks s
PawnAttackersOf == [side \in Sides |-> [s \in Sq |->
    LET dr == IF side = White THEN -1 ELSE 1
    IN Targets(s, { <<dr, 1>>, <<dr, -1>> })]]
\* squares a pawn of `side` standing on s attacks
PawnCaptT == [side \in Sides |-> [s \in Sq |->
    LET dr == IF side = White THEN 1 ELSE -1
    IN Targets(s, { <<dr, 1>>, <<dr, -1>> })]]

\* first occupied square along a ray, or -1
RECURSIVE FirstOcc(_, _, _)
FirstOcc(b, ray, i) ==
  IF i > Len(ray) THEN -1
  ELSE IF b[ray[i]] # Empty THEN ray[i] ELSE FirstOcc(b, ray, i + 1)

\* is square s attacked by a piece of side `by` on board b
Attacked(b, s, by) ==
  \/ \E t \in KnightT[s] : b[t] = Pc(by, "N")
  \/ \E t \in KingT[s] : b[t] = Pc(by, "K")
  \/ \E t \in PawnAttackersOf[by][s] : b[t] = Pc(by, "P")
  \/ \E d \in OrthDirs : LET f == FirstOcc(b, Ray[s][d], 1)
                         IN f >= 0 /\ b[f] \in {Pc(by, "R"), Pc(by, "Q")}
  \/ \E d \in DiagDirs : LET f == FirstOcc(b, Ray[s][d], 1)
                         IN f >= 0 /\ b[f] \in {Pc(by, "B"), Pc(by, "Q")}

KingSquares(b, side) == { s \in Sq : b[s] = Pc(side, "K") }
HasKing(b, side) == KingSquares(b, side) # {}
KingSq(b, side) == CHOOSE s \in Sq : b[s] = Pc(side, "K")
\* a side without a king is never "in check" (arises only below the search frontier)
InCheck(b, side) == HasKing(b, side) /\ Attacked(b, KingSq(b, side), Other(side))

RECURSIVE SlideTargets(_, _, _, _)
SlideTargets(b, ray, i, side) ==
  IF i > Len(ray) THEN {}
  ELSE IF b[ray[i]] = Empty THEN {ray[i]} \cup SlideTargets(b, ray, i + 1, side)
  ELSE IF b[ray[i]] \in PiecesOf(side) THEN {} ELSE {ray[i]}

Mv(f, t, p, k) == [from |-> f, to |-> t, promo |-> p, kind |-> k]
PromoKinds == {"Q", "R", "B", "N"}

PawnMoves(pos, s) ==
  LET b == pos.board
      side == pos.stm
      dr == IF side = White THEN 1 ELSE -1
      startRow == IF side = White THEN 1 ELSE 6
      lastRow == IF side = White THEN 7 ELSE 0
      epRow == IF side = White THEN 4 ELSE 3
      r == Row(s)
      c == Col(s)
      fwd == SqOf(r + dr, c)
      Promo(t) == IF Row(t) = lastRow THEN { Mv(s, t, p, "n") : p \in PromoKinds }
                  ELSE { Mv(s, t, "", "n") }
      pushes == IF OnBoard(r + dr, c) /\ b[fwd] = Empty
                THEN Promo(fwd) \cup
                     (IF r = startRow /\ b[SqOf(r + 2*dr, c)] = Empty
                      THEN { Mv(s, SqOf(r + 2*dr, c), "", "dp") } ELSE {})
                ELSE {}
      caps == UNION { Promo(t) : t \in { u \in PawnCaptT[side][s] : b[u] \in PiecesOf(Other(side)) } }
      eps == IF r = epRow /\ pos.ep < 8 /\ (pos.ep - c = 1 \/ c - pos.ep = 1)
             THEN { Mv(s, SqOf(r + dr, pos.ep), "", "ep") } ELSE {}
  IN pushes \cup caps \cup eps

CastleMoves(pos) ==
  LET b == pos.board
      side == pos.stm
      r == IF side = White THEN 0 ELSE 7
      e == SqOf(r, 4)
      kr == IF side = White THEN "K" ELSE "k"
      qr == IF side = White THEN "Q" ELSE "q"
      opp == Other(side)
  IN (IF kr \in pos.cast /\ b[e] = Pc(side, "K") /\ b[SqOf(r, 7)] = Pc(side, "R")
         /\ b[SqOf(r, 5)] = Empty /\ b[SqOf(r, 6)] = Empty
         /\ ~Attacked(b, e, opp) /\ ~Attacked(b, SqOf(r, 5), opp) /\ ~Attacked(b, SqOf(r, 6), opp)
      THEN { Mv(e, SqOf(r, 6), "", "OO") } ELSE {})
     \cup
     (IF qr \in pos.cast /\ b[e] = Pc(side, "K") /\ b[SqOf(r, 0)] = Pc(side, "R")
         /\ b[SqOf(r, 1)] = Empty /\ b[SqOf(r, 2)] = Empty /\ b[SqOf(r, 3)] = Empty
         /\ ~Attacked(b, e, opp) /\ ~Attacked(b, SqOf(r, 3), opp) /\ ~Attacked(b, SqOf(r, 2), opp)
      THEN { Mv(e, SqOf(r, 2), "", "OOO") } ELSE {})

PieceMoves(pos, s) ==
  LET b == pos.board
      side == pos.stm
      p == b[s]
      NotOwn(T) == { t \in T : b[t] \notin PiecesOf(side) }
      Slide(ds) == { Mv(s, t, "", "n") : t \in UNION { SlideTargets(b, Ray[s][d], 1, side) : d \in ds } }
  IN IF p = Pc(side, "P") THEN PawnMoves(pos, s)
     ELSE IF p = Pc(side, "N") THEN { Mv(s, t, "", "n") : t \in NotOwn(KnightT[s]) }
     ELSE IF p = Pc(side, "K") THEN { Mv(s, t, "", "n") : t \in NotOwn(KingT[s]) }
     ELSE IF p = Pc(side, "R") THEN Slide(OrthDirs)
     ELSE IF p = Pc(side, "B") THEN Slide(DiagDirs)
     ELSE IF p = Pc(side, "Q") THEN Slide(1..8)
     ELSE {}

\* geometrically valid moves (castling with all its conditions; own king safety NOT required)
Pseudo(pos) ==
  UNION { PieceMoves(pos, s) : s \in { t \in Sq : pos.board[t] \in PiecesOf(pos.stm) } }
  \cup CastleMoves(pos)

ApplyBoard(b, side, m) ==
  LET mover == IF m.promo # "" THEN Pc(side, m.promo) ELSE b[m.from]
      r == Row(m.from)
  IN CASE m.kind = "ep" -> [b EXCEPT ![m.from] = Empty, ![m.to] = mover, ![SqOf(r, Col(m.to))] = Empty]
       [] m.kind = "OO" -> [b EXCEPT ![m.from] = Empty, ![m.to] = mover,
                                     ![SqOf(r, 7)] = Empty, ![SqOf(r, 5)] = Pc(side, "R")]
       [] m.kind = "OOO" -> [b EXCEPT ![m.from] = Empty, ![m.to] = mover,
                                      ![SqOf(r, 0)] = Empty, ![SqOf(r, 3)] = Pc(side, "R")]
       [] OTHER -> [b EXCEPT ![m.from] = Empty, ![m.to] = mover]

Legal(pos) == { m \in Pseudo(pos) : ~InCheck(ApplyBoard(pos.board, pos.stm, m), pos.stm) }

\* the successor position (defined for every pseudo-legal move, king captures included)
Apply(pos, m) ==
  LET b == pos.board
      side == pos.stm
      nb == ApplyBoard(b, side, m)
      lost == (IF b[m.from] = "K" THEN {"K","Q"} ELSE {})
              \cup (IF b[m.from] = "k" THEN {"k","q"} ELSE {})
              \cup (IF 0 \in {m.from, m.to} THEN {"Q"} ELSE {})
              \cup (IF 7 \in {m.from, m.to} THEN {"K"} ELSE {})
              \cup (IF 56 \in {m.from, m.to} THEN {"q"} ELSE {})
              \cup (IF 63 \in {m.from, m.to} THEN {"k"} ELSE {})
      c == Col(m.to)
      adj == { SqOf(Row(m.to), cc) : cc \in {c - 1, c + 1} \cap 0..7 }
      nep == IF m.kind = "dp" /\ \E a \in adj : nb[a] = Pc(Other(side), "P") THEN c ELSE 8
  IN [board |-> nb, stm |-> Other(side), cast |-> pos.cast \ lost, ep |-> nep]

IsCapture(pos, m) == pos.board[m.to] # Empty \/ m.kind = "ep"

---------------------------------------------------------------------------
(* sanity of a position *)
CastOK(pos) ==
  /\ ("K" \in pos.cast => pos.board[4] = "K" /\ pos.board[7] = "R")
  /\ ("Q" \in pos.cast => pos.board[4] = "K" /\ pos.board[0] = "R")
  /\ ("k" \in pos.cast => pos.board[60] = "k" /\ pos.board[63] = "r")
  /\ ("q" \in pos.cast => pos.board[60] = "k" /\ pos.board[56] = "r")

\* the geometry a just-played double step leaves behind (FIDE: independent of capturability)
EpGeom(pos, f) ==
  LET b == pos.board
      pr == IF pos.stm = White THEN 4 ELSE 3   \* row of the pawn that just moved
      d == IF pos.stm = White THEN 1 ELSE -1
  IN /\ b[SqOf(pr, f)] = Pc(Other(pos.stm), "P")
     /\ b[SqOf(pr + d, f)] = Empty /\ b[SqOf(pr + 2*d, f)] = Empty
EpCapturable(pos, f) ==
  LET pr == IF pos.stm = White THEN 4 ELSE 3
  IN \E cc \in {f - 1, f + 1} \cap 0..7 : pos.board[SqOf(pr, cc)] = Pc(pos.stm, "P")
\* engine convention: recorded exactly when an enemy pawn stands beside the pushed pawn
EpOK(pos) == pos.ep < 8 => EpGeom(pos, pos.ep) /\ EpCapturable(pos, pos.ep)

\* material a game can reach: at most 8 pawns a side, every extra piece paid for by a missing pawn
Count(b, p) == Cardinality({ s \in Sq : b[s] = p })
MaterialOK(b) ==
  \A side \in Sides :
    LET n(k) == Count(b, Pc(side, k))
        extra(k, base) == IF n(k) > base THEN n(k) - base ELSE 0
    IN n("P") <= 8 /\ extra("Q", 1) + extra("R", 2) + extra("B", 2) + extra("N", 2) <= 8 - n("P")

Sane(pos) ==
  /\ MaterialOK(pos.board)
  /\ Cardinality(KingSquares(pos.board, White)) = 1
  /\ Cardinality(KingSquares(pos.board, Black)) = 1
  /\ \A s \in (0..7) \cup (56..63) : pos.board[s] \notin {"P", "p"}
  /\ ~InCheck(pos.board, Other(pos.stm))
  /\ CastOK(pos)
  /\ EpOK(pos)

Checkmate(pos) == Legal(pos) = {} /\ InCheck(pos.board, pos.stm)
Stalemate(pos) == Legal(pos) = {} /\ ~InCheck(pos.board, pos.stm)
MateIn1Moves(pos) == { m \in Legal(pos) : Checkmate(Apply(pos, m)) }
\* m keeps a forced mate in (at most) two: after m it is mate, or every reply allows mate in one
KeepsMate2Moves(pos) ==
  { m \in Legal(pos) :
      LET q == Apply(pos, m)
          lq == Legal(q)
      IN IF lq = {} THEN InCheck(q.board, q.stm)
         ELSE \A r \in lq : MateIn1Moves(Apply(q, r)) # {} }

---------------------------------------------------------------------------
(* colour mirror *)
SwapCase(p) == IF p = Empty THEN Empty
               ELSE IF p \in WhitePieces THEN LowerOf[p] ELSE KindOf(p)
MirrorSq(s) == SqOf(7 - Row(s), Col(s))
SwapRight(r) == CASE r = "K" -> "k" [] r = "Q" -> "q" [] r = "k" -> "K" [] r = "q" -> "Q"
Mirror(pos) == [board |-> [s \in Sq |-> SwapCase(pos.board[MirrorSq(s)])],
                stm |-> Other(pos.stm),
                cast |-> { SwapRight(r) : r \in pos.cast },
                ep |-> pos.ep]

---------------------------------------------------------------------------
(* move text (UCI long algebraic) *)
FileCh == <<"a","b","c","d","e","f","g","h">>
RankCh == <<"1","2","3","4","5","6","7","8">>
SqTxt(s) == FileCh[Col(s) + 1] \o RankCh[Row(s) + 1]
Lower(k) == CASE k = "Q" -> "q" [] k = "R" -> "r" [] k = "B" -> "b" [] k = "N" -> "n" [] OTHER -> ""
Uci(m) == SqTxt(m.from) \o SqTxt(m.to) \o Lower(m.promo)
LegalTexts(pos) == { Uci(m) : m \in Legal(pos) }
PseudoTexts(pos) == { Uci(m) : m \in Pseudo(pos) }

\* number of legal move paths of length d (perft)
RECURSIVE Perft(_, _)
Perft(p, d) ==
  IF d = 0 THEN 1
  ELSE LET lg == Legal(p) IN
       IF d = 1 THEN Cardinality(lg)
       ELSE LET F[S \in SUBSET lg] == IF S = {} THEN 0
                                      ELSE LET m == CHOOSE m \in S : TRUE IN Perft(Apply(p, m), d - 1) + F[S \ {m}]
            IN F[lg]

EmptyBoard == [s \in Sq |-> Empty]
StartBoard ==
  [s \in Sq |->
     IF Row(s) = 1 THEN "P" ELSE IF Row(s) = 6 THEN "p"
     ELSE IF Row(s) \in 2..5 THEN Empty
     ELSE LET k == <<"R","N","B","Q","K","B","N","R">>[Col(s) + 1]
          IN IF Row(s) = 0 THEN k ELSE LowerOf[k]]
StartPos == [board |-> StartBoard, stm |-> White, cast |-> {"K","Q","k","q"}, ep |-> 8]
=============================================================================
