------------------------------ MODULE MC_Chess ------------------------------
(***************************************************************************)
(* Exhaustive exploration of the rules state machine from a set of roots,  *)
(* checking the theorems the other modules rely on in every state:         *)
(* sanity is inductive, move text is injective, the FEN printer and parser *)
(* are inverse, the hash and score obey the mirror / single-feature laws.  *)
(* ROOTS (environment) names a JSON file: an array of FENs, each an array  *)
(* of one-character strings.                                               *)
(***************************************************************************)
EXTENDS Fen, Zobrist, Eval, Show, Json, IOUtils

CONSTANT MaxDepth
RootChars == JsonDeserialize(IOEnv.ROOTS)
Roots == { Parse(RootChars[i]) : i \in DOMAIN RootChars }

VARIABLES pos, depth
vars == <<pos, depth>>

Init == pos \in Roots /\ depth = 0
Next == /\ depth < MaxDepth
        /\ \E m \in Legal(pos) : pos' = Apply(pos, m)
        /\ depth' = depth + 1
Spec == Init /\ [][Next]_vars

\* C01/C02: legal play preserves sanity (so Legal/Apply are closed on sane positions)
InvSane == Sane(pos)
\* C12: distinct legal moves have distinct texts
InvUciInjective == \A m1, m2 \in Legal(pos) : Uci(m1) = Uci(m2) => m1 = m2
\* C11/C17: the printed FEN is well formed and parses back to the position
InvFenRoundTrip ==
  LET cs == FenLineChars(pos) \o <<" ", "0", " ", "1">> IN
  Classify(cs) = "MustAccept" /\ Parse(cs) = pos
\* C16: the colour mirror negates the score, whichever king table is in use; mirror is an involution
MirrorMoveTxt(m) ==
  LET mm == [m EXCEPT !.from = MirrorSq(m.from), !.to = MirrorSq(m.to)] IN Uci(mm)
InvMirror ==
  /\ Mirror(Mirror(pos)) = pos
  /\ \A kt \in {"m", "e"} : ScoreWith(Mirror(pos).board, kt) = 0 - ScoreWith(pos.board, kt)
  /\ LegalTexts(Mirror(pos)) = { MirrorMoveTxt(m) : m \in Legal(pos) }
\* C05: every single-feature change of the position changes the hash
SingleFeatureVariants(p) ==
  ( { [p EXCEPT !.stm = Other(p.stm)] }
    \cup { [p EXCEPT !.cast = (p.cast \ {r}) \cup ({r} \ p.cast)] : r \in {"K", "Q", "k", "q"} }
    \cup { [p EXCEPT !.ep = f] : f \in (0..8) \ {p.ep} }
    \cup { [p EXCEPT !.board[s] = c] : s \in Sq, c \in Contents } ) \ {p}
InvSingleFeature == \A q \in SingleFeatureVariants(pos) : Hash(q) # Hash(pos)

\* C02: castling rights are never regained; ep only right after a double step beside an enemy pawn
CastMonotone == [][pos'.cast \subseteq pos.cast]_vars

HashView == <<Hash(pos), depth>>
PosView == <<pos, depth>>
=============================================================================
