------------------------------ MODULE Zobrist ------------------------------
(***************************************************************************)
(* The position hash as a function of the position, over the published     *)
(* key file.  ZobristKeys.tla (generated at check time from                *)
(* /repo/zobrist_bytes.bin, byte for byte) supplies KeyBytes, the 8208     *)
(* bytes of the file; the key LAYOUT is stated here:                       *)
(*   side-to-move key   = little-endian u64 at byte offset 0               *)
(*   empty-square key   = ... at byte offset 1                             *)
(*   state key i (0..255, i = 16*rights + ep file) at byte offset 2 + 8i   *)
(*   piece key (sq, pc) at byte offset 259 + 8*(12*sq + pc),               *)
(*      pc = Q,R,B,N,P,K for White (0..5) then the same for Black (6..11)  *)
(* (byte offsets: neighbouring keys overlap; that is the published layout) *)
(* A 64-bit value is four 16-bit limbs <<h3,h2,h1,h0>>, h3 most            *)
(* significant, because TLC integers are 32-bit.                           *)
(***************************************************************************)
EXTENDS Chess, Bitwise, ZobristKeys

Byte(off) == KeyBytes[off + 1]
KeyAt(off) == << Byte(off + 6) + 256 * Byte(off + 7), Byte(off + 4) + 256 * Byte(off + 5),
                 Byte(off + 2) + 256 * Byte(off + 3), Byte(off)     + 256 * Byte(off + 1) >>
X4(a, b) == << a[1] ^^ b[1], a[2] ^^ b[2], a[3] ^^ b[3], a[4] ^^ b[4] >>
Zero4 == <<0, 0, 0, 0>>

SideKey == KeyAt(0)
EmptyKey == KeyAt(1)
StateKey == [i \in 0..255 |-> KeyAt(2 + 8 * i)]
PieceIdx(p) == CASE p = "Q" -> 0 [] p = "R" -> 1 [] p = "B" -> 2 [] p = "N" -> 3 [] p = "P" -> 4 [] p = "K" -> 5
                 [] p = "q" -> 6 [] p = "r" -> 7 [] p = "b" -> 8 [] p = "n" -> 9 [] p = "p" -> 10 [] p = "k" -> 11
PieceKey == [s \in Sq |-> [p \in WhitePieces \cup BlackPieces |-> KeyAt(259 + 8 * (12 * s + PieceIdx(p)))]]
SquareKey(s, c) == IF c = Empty THEN EmptyKey ELSE PieceKey[s][c]

\* state byte: low nibble ep file (8 = none), bits 4..7 = K, Q, k, q
StateByte(cast, ep) ==
  ep + (IF "K" \in cast THEN 16 ELSE 0) + (IF "Q" \in cast THEN 32 ELSE 0)
     + (IF "k" \in cast THEN 64 ELSE 0) + (IF "q" \in cast THEN 128 ELSE 0)

RECURSIVE BoardHash(_, _)
BoardHash(b, s) == IF s = 64 THEN Zero4 ELSE X4(SquareKey(s, b[s]), BoardHash(b, s + 1))

Hash(pos) ==
  X4(X4(BoardHash(pos.board, 0), IF pos.stm = Black THEN SideKey ELSE Zero4),
     StateKey[StateByte(pos.cast, pos.ep)])

\* README promise
StartHash == << 55749, 17810, 25117, 28736 >>      \* D9C5 4592 621D 7040
=============================================================================
