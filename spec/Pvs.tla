-------------------------------- MODULE Pvs --------------------------------
(***************************************************************************)
(* C09, design level: the search ALGORITHM of search.rs transcribed on     *)
(* abstract trees, and the theorem that it computes the plain negamax      *)
(* value:                                                                  *)
(*   Root(t)            = Negamax(t)                                       *)
(*   Node(t, a, b)      = Clamp(Negamax(t), a, b)      for every a < b     *)
(* for ALL trees of the bounded shapes below x ALL leaf values x ALL       *)
(* windows.  Since every assignment of leaf values is enumerated, every    *)
(* order in which moves can be tried is covered: the value does not depend *)
(* on move ordering.                                                       *)
(*                                                                         *)
(* A tree is an integer (a quiet leaf: stand-pat evaluation, no tactical   *)
(* move) or a non-empty sequence of trees (the moves in the order tried).  *)
(*   Leaf   quiescence_search with no tactical move: fail-hard stand-pat   *)
(*   Node   get_best_move_score: first three moves full window, then a     *)
(*          null-window probe (-a-1, -a) and, if test > best, a re-search  *)
(*          with (-b, -test); fail-hard return of alpha; cut-off a >= b    *)
(*   D1     get_best_move_score_depth_1: plain fail-hard alpha-beta        *)
(*   Root   get_best_move_entry: best starts at -INF, window (-INF, -best) *)
(*          for the first three moves, then probe (-best-1, -best) and     *)
(*          re-search (-INF, -score)                                       *)
(*   Term   get_best_move_score with no legal move (remaining depth >= 2):  *)
(*          0 (stalemate) or the mate score, returned WITHOUT looking at    *)
(*          the window - the one place where the search is fail-soft.       *)
(*          Shapes "3xT" and "1x4xT" put such terminals among the children  *)
(*          of the root and of an interior PVS node; there the interior     *)
(*          contract weakens to InvNodeT (same clamped value, never below   *)
(*          alpha) while the root value stays exact.                        *)
(* (The table is left out here - PvsTable.tla; quiescence / depth-1 nodes   *)
(* with no pseudo-move at all are window-dependent by construction and     *)
(* are excluded by the property; RefSearch.tla has the leaf rule itself.)  *)
(***************************************************************************)
EXTENDS Integers, Sequences, FiniteSets, TLC

CONSTANTS V,        \* leaf values, a small integer interval
          Shape     \* which family of trees

INF == 100
MCV3 == (0 - 1)..1      \* leaf value sets for the configurations
MCV5 == (0 - 2)..2
Max2(a, b) == IF a > b THEN a ELSE b
Clamp(x, a, b) == IF x <= a THEN a ELSE IF x >= b THEN b ELSE x
\* representation: a leaf is [v |-> value], an interior node [ch |-> <<subtrees>>]
L(x) == [v |-> x]
N(seq) == [ch |-> seq]
T(x) == [tv |-> x]                  \* a node with no legal move: x = 0 (stalemate) or -MATE (mated)
MATE == 90
Terms == { T(0), T(0 - MATE) }
IsLeaf(t) == "v" \in DOMAIN t
IsTerm(t) == "tv" \in DOMAIN t
Kids(t) == t.ch

RECURSIVE Negamax(_)
Negamax(t) ==
  IF IsLeaf(t) THEN t.v
  ELSE IF IsTerm(t) THEN t.tv
  ELSE LET vals == { 0 - Negamax(Kids(t)[i]) : i \in DOMAIN Kids(t) } IN CHOOSE x \in vals : \A y \in vals : y <= x

\* quiescence on a quiet leaf
Leaf(v, a, b) == LET a2 == Max2(a, v) IN IF a2 >= b THEN b ELSE a2

RECURSIVE Node(_, _, _), NodeLoop(_, _, _, _, _), D1(_, _, _), D1Loop(_, _, _, _)

\* depth-1 specialisation: children are leaves
D1Loop(t, i, a, b) ==
  IF i > Len(Kids(t)) THEN a
  ELSE LET score == 0 - Leaf(Kids(t)[i].v, 0 - b, 0 - a)
           a2 == IF score > a THEN score ELSE a
       IN IF a2 >= b THEN a2 ELSE D1Loop(t, i + 1, a2, b)
D1(t, a, b) == D1Loop(t, 1, a, b)

AllLeaves(t) == ~IsTerm(t) /\ \A i \in DOMAIN Kids(t) : IsLeaf(Kids(t)[i])
Child(t, a, b) == IF IsLeaf(t) THEN Leaf(t.v, a, b)
                  ELSE IF IsTerm(t) THEN t.tv          \* window ignored
                  ELSE IF AllLeaves(t) THEN D1(t, a, b)
                  ELSE Node(t, a, b)

\* st = [a |-> alpha, best |-> best_score]
NodeLoop(t, i, st, b, dummy) ==
  IF i > Len(Kids(t)) THEN st.a
  ELSE LET st2 ==
         IF i <= 3
         THEN LET score == 0 - Child(Kids(t)[i], 0 - b, 0 - st.a)
              IN [a |-> Max2(st.a, score), best |-> IF score > st.best THEN score ELSE st.best]
         ELSE LET test == 0 - Child(Kids(t)[i], 0 - st.a - 1, 0 - st.a)
              IN IF test > st.best
                 THEN LET score == 0 - Child(Kids(t)[i], 0 - b, 0 - test)
                      IN [a |-> Max2(st.a, score), best |-> score]
                 ELSE st
       IN IF st2.a >= b THEN st2.a ELSE NodeLoop(t, i + 1, st2, b, dummy)
Node(t, a, b) == NodeLoop(t, 1, [a |-> a, best |-> 0 - INF - 1], b, 0)

RECURSIVE RootLoop(_, _, _)
RootLoop(t, i, best) ==
  IF i > Len(Kids(t)) THEN best
  ELSE IF i <= 3
       THEN LET score == 0 - Child(Kids(t)[i], 0 - INF, 0 - best)
            IN RootLoop(t, i + 1, IF score > best THEN score ELSE best)
       ELSE LET score == 0 - Child(Kids(t)[i], 0 - best - 1, 0 - best)
            IN IF score > best
               THEN RootLoop(t, i + 1, 0 - Child(Kids(t)[i], 0 - INF, 0 - score))
               ELSE RootLoop(t, i + 1, best)
Root(t) == RootLoop(t, 1, 0 - INF)

---------------------------------------------------------------------------
LeafSeqs(n) == { [i \in 1..n |-> L(f[i])] : f \in [1..n -> V] }
D1Nodes(n) == { N(q) : q \in LeafSeqs(n) }
Trees ==
  CASE Shape = "flat5"  -> D1Nodes(5)                                          \* root over 5 leaves (root probe / re-search)
    [] Shape = "4x2"    -> { N(q) : q \in [1..4 -> D1Nodes(2)] }               \* root over four depth-1 nodes
    [] Shape = "2x4"    -> { N(q) : q \in [1..2 -> D1Nodes(4)] }
    [] Shape = "1x4x2"  -> { N(<< N(q) >>) : q \in [1..4 -> D1Nodes(2)] }      \* an interior PVS node with four children
    [] Shape = "2x4x1"  -> { N(q) : q \in [1..2 -> { N(r) : r \in [1..4 -> D1Nodes(1)] }] }
    \* depth 3: the root over three children, each a terminal or a PVS node over two depth-1 nodes of one leaf
    [] Shape = "3xT"    -> { N(q) : q \in [1..3 -> Terms \cup { N(r) : r \in [1..2 -> D1Nodes(1)] }] }
    \* depth 4: an interior PVS node with four children (probe / re-search reached), each a terminal or a node over one depth-1 node
    [] Shape = "1x4xT"  -> { N(<< N(q) >>) : q \in [1..4 -> Terms \cup { N(<< d >>) : d \in D1Nodes(1) }] }
    [] Shape = "5xT"    -> { N(q) : q \in [1..5 -> Terms \cup { N(<< d >>) : d \in D1Nodes(1) }] }
WB == V \cup {0 - INF, INF, 0 - MATE, MATE, 1 - MATE, MATE - 1}
WindowsT == { x \in WB \X WB : x[1] < x[2] }
Windows == { w \in (V \cup {0 - INF, INF}) \X (V \cup {0 - INF, INF}) : w[1] < w[2] }

VARIABLES t, w
Init == t \in Trees /\ w \in Windows
Next == UNCHANGED <<t, w>>
Spec == Init /\ [][Next]_<<t, w>>

InvRoot == Root(t) = Negamax(t)
InvNode == ~AllLeaves(t) => Node(t, w[1], w[2]) = Clamp(Negamax(t), w[1], w[2])
\* with terminals below: the interior node is fail-soft upwards only, and agrees with negamax after clamping
InvNodeT == \A x \in WindowsT :
              LET r == Node(t, x[1], x[2]) IN r >= x[1] /\ Clamp(r, x[1], x[2]) = Clamp(Negamax(t), x[1], x[2])
\* coverage witnesses (checked as invariants that must FAIL would be wrong; used via ASSUME-free counting in the cfg comments)
InvD1 == AllLeaves(t) => D1(t, w[1], w[2]) = Clamp(Negamax(t), w[1], w[2])
=============================================================================
