----------------------------- MODULE TimeBudget -----------------------------
(***************************************************************************)
(* C13.  Property level: the thinking time an engine may allot itself for  *)
(* a `go` with clocks / increments / a fixed move time:                    *)
(*      Allowed == 0 .. Remaining                                          *)
(* where Remaining is the mover's clock (for `movetime`, the given time).  *)
(* Deliberately NOT the engine's formula: any safe allocation policy is    *)
(* accepted.  Design level: Budget is the engine's formula (2% of the      *)
(* clock plus the increment minus a 150 ms latency allowance, clamped to   *)
(* [0, clock], minus 5 ms for the sleep); TLC checks Budget \in Allowed    *)
(* for every point of the boundary grid, and prints the grid (GRID lines)  *)
(* that is then sent to the real binary.  The same lemma is proved for all *)
(* naturals with TLAPS in TimeBudgetProof.tla.                             *)
(***************************************************************************)
EXTENDS Integers, TLC, Json

Remaining(side, wtime, btime) == IF side = "w" THEN wtime ELSE btime
Allowed(remaining) == 0..remaining

Max(a, b) == IF a > b THEN a ELSE b
Min(a, b) == IF a < b THEN a ELSE b
Budget(clock, inc) == Max(Min(Max((clock \div 50) + inc - 150, 0), clock) - 5, 0)
MoveTimeBudget(mt) == Max(mt - 5, 0)

\* boundary values: around the latency allowance, the 7.5 s knee, large clocks, the 32-bit edge
Clocks == {0, 1, 49, 50, 51, 149, 150, 151, 7449, 7450, 7499, 7500, 7501, 10000, 60000, 3600000, 2147483647}
Incs == {0, 1, 100, 149, 150, 151, 1000, 10000, 2147483647}
MoveTimes == {0, 1, 4, 5, 6, 50, 200, 1000, 2147483647}

VARIABLE g
Init == g \in [kind : {"clock"}, side : {"w", "b"}, own : Clocks, opp : {0, 1000, 2147483647}, inc : Incs, oinc : {0, 10000}]
            \cup [kind : {"movetime"}, side : {"w", "b"}, mt : MoveTimes]
            \* a fixed move time together with clocks: the move time is the time available
            \cup [kind : {"both"}, side : {"w", "b"}, mt : {0, 6, 200}, own : {0, 300000}, opp : {1000}, inc : {0, 10000}, oinc : {0}]
Next == UNCHANGED g
Spec == Init /\ [][Next]_g

\* (clock \div 50) + inc can exceed 32 bits in TLC's arithmetic for the largest pair: the model saturates like the code
SafeBudget(clock, inc) == IF inc >= 2147483647 - (clock \div 50) THEN Max(Min(2147483647 - 150, clock) - 5, 0) ELSE Budget(clock, inc)

InvBudgetAllowed ==
  IF g.kind = "clock" THEN SafeBudget(g.own, g.inc) \in Allowed(g.own)
  ELSE MoveTimeBudget(g.mt) \in Allowed(g.mt)       \* "movetime" and "both": the move time overrides the clocks
\* low clocks shorten rather than extend: below the knee, without increment, nothing is allotted
InvLowClock == (g.kind = "clock" /\ g.inc = 0 /\ g.own <= 7500) => SafeBudget(g.own, g.inc) = 0

EmitGrid == PrintT(<<"GRID", ToJson(g)>>)
=============================================================================
