---------------------------- MODULE TraceSession ----------------------------
(***************************************************************************)
(* Session.tla + TimeBudget.tla as a monitor over UCI transcripts of the   *)
(* real binary (impl -> spec).  Events, in the order the driver sent or    *)
(* received them on its single pipe:                                       *)
(*   session {id, schedule}     a new engine process                       *)
(*   cmd     {kind, text, refused, error, ready, afterbest, params,        *)
(*            infotime, fen, pre, show}   a command, fenced by isready     *)
(*   best    {move, t}          a bestmove line                            *)
(*   pv / depth / score         info lines of the search thread            *)
(*   waited  {ok}               the driver waited for a bestmove           *)
(*   exit    {clean, hung, rc}  the process after quit                     *)
(*   end     {panic, stderr}    stderr summary                             *)
(* Obligations (C14): exactly one bestmove per accepted go; readyok after  *)
(* every isready; no refusal of position/go when the GUI has seen a        *)
(* bestmove for every go; clean exit; no panic.  (C13): 0 <= allotted time *)
(* <= time remaining for the side to move, announced within it (wide       *)
(* tolerance).  (C06/C07): the announced move is legal in the position     *)
(* searched.  (C08): no reported depth above the limit.  (C18): every pv   *)
(* line is playable.  (C20/C12): `show` shows the position that was set.   *)
(***************************************************************************)
EXTENDS Fen, Zobrist, Show, Json, IOUtils

Rec == ndJsonDeserialize(IOEnv.TRACE)

VARIABLES l,
          rootrec,     \* expected move-record token sets of the moves given in the last position command
          pending,     \* accepted go commands not yet answered by a bestmove
          root,        \* the position last set successfully (NoPos = unknown / none)
          sroot,       \* the position the running / last search was started from
          go,          \* the last accepted go: [t, params, infotime (or -1), stopped]
          waiting      \* C19 monitor: [acc: info lines of the running search, memo: first result per (position, depth)
                       \* of a search started from a fresh engine or right after ucinewgame, fresh: no go since the reset]
vars == <<l, rootrec, pending, root, sroot, go, waiting>>

ToSet(q) == { q[i] : i \in DOMAIN q }
F(ok, prop, what, detail) == IF ok THEN {} ELSE { [p |-> prop, w |-> what, d |-> detail] }
Report(fs) == IF fs = {} THEN TRUE ELSE PrintT(<<"FAIL", l, ToJson(fs)>>)
NoPos == [board |-> EmptyBoard, stm |-> White, cast |-> {}, ep |-> 8]
NoGo == [t |-> 0, params |-> [none |-> 0], infotime |-> -1, stopped |-> FALSE, stopt |-> 0, fresh |-> FALSE, quit |-> FALSE, cut |-> FALSE, plies |-> 0]
NoAcc == [depths |-> << >>, scores |-> << >>, pvs |-> << >>]
Tolerance == 2500   \* ms, driver clock: wide enough for a loaded machine

RECURSIVE ApplyTexts(_, _)
ApplyTexts(p, ts) ==
  IF ts = << >> THEN p
  ELSE LET c == { m \in Pseudo(p) : Uci(m) = Head(ts) } IN
       IF c = {} THEN NoPos
       ELSE LET m == CHOOSE m \in c : TRUE IN
            IF InCheck(ApplyBoard(p.board, p.stm, m), p.stm) THEN NoPos ELSE ApplyTexts(Apply(p, m), Tail(ts))
RECURSIVE Playable(_, _)
Playable(p, ts) ==
  IF ts = << >> THEN TRUE
  ELSE LET c == { m \in Pseudo(p) : Uci(m) = Head(ts) } IN
       IF c = {} THEN FALSE
       ELSE LET m == CHOOSE m \in c : TRUE IN
            ~InCheck(ApplyBoard(p.board, p.stm, m), p.stm) /\ Playable(Apply(p, m), Tail(ts))

\* the move-record tokens Show.tla prescribes for the moves ts played from p
RECURSIVE RecSeq(_, _)
RecSeq(p, ts) ==
  IF ts = << >> THEN << >>
  ELSE LET c == { m \in Pseudo(p) : Uci(m) = Head(ts) } IN
       IF c = {} THEN << >>
       ELSE LET m == CHOOSE m \in c : TRUE IN << RecTokens(p, m) >> \o RecSeq(Apply(p, m), Tail(ts))

Has(r, k) == k \in DOMAIN r

\* TimeBudget: the time remaining for the side to move under this go
Remaining(params, side) ==
  IF Has(params, "movetime") THEN params.movetime
  ELSE IF side = White THEN params.wtime ELSE params.btime
AnyTime(params) == \E k \in {"movetime", "wtime", "btime", "winc", "binc"} : Has(params, k)
Timed(params) == Has(params, "movetime") \/ (Has(params, "wtime") /\ Has(params, "btime") /\ Has(params, "winc") /\ Has(params, "binc"))

Init == l = 1 /\ rootrec = << >> /\ pending = 0 /\ root = NoPos /\ sroot = NoPos /\ go = NoGo /\ waiting = [acc |-> NoAcc, memo |-> {}, fresh |-> TRUE]

IsEv(name) == l <= Len(Rec) /\ Rec[l].ev = name

Session == /\ IsEv("session")
           /\ pending' = 0 /\ root' = NoPos /\ sroot' = NoPos /\ go' = NoGo /\ rootrec' = << >>
           /\ waiting' = [waiting EXCEPT !.acc = NoAcc, !.fresh = TRUE] /\ l' = l + 1

Cmd ==
  /\ IsEv("cmd")
  /\ LET e == Rec[l]
         quiescent == pending = 0
         common == F(Has(e, "ready") => e.ready, "C14", "isready was not answered with readyok (engine wedged or dead)",
                     [after |-> e.text])
                   \cup F(e.kind \in {"position", "go", "show"} /\ e.refused => ~quiescent, "C14",
                          "a command sent after every bestmove had been received was refused as 'search is still running'",
                          [cmd |-> e.text])
     IN
     CASE e.kind = "position" ->
            /\ Report(common)
            /\ root' = IF e.refused THEN root
                       ELSE IF e.error # "" THEN NoPos
                       ELSE IF Has(e, "fen") /\ (e.fen = <<"startpos">> \/ SyntaxClass(e.fen) = "A")
                            THEN ApplyTexts(IF e.fen = <<"startpos">> THEN StartPos ELSE Parse(e.fen), e.pre)
                            ELSE NoPos
            /\ rootrec' = IF e.refused THEN rootrec
                          ELSE IF e.error = "" /\ Has(e, "fen") /\ (e.fen = <<"startpos">> \/ SyntaxClass(e.fen) = "A")
                               THEN RecSeq(IF e.fen = <<"startpos">> THEN StartPos ELSE Parse(e.fen), e.pre)
                               ELSE << >>
            /\ UNCHANGED <<pending, sroot, go, waiting>>
       [] e.kind = "go" ->
            LET accepted == ~e.refused /\ e.error = ""
                it == IF Has(e, "infotime") THEN e.infotime ELSE -1
            IN /\ Report(common
                    \cup (IF accepted /\ it >= 0 /\ root # NoPos /\ Timed(e.params)
                          THEN F(~e.infotime_overflow /\ it <= Remaining(e.params, root.stm), "C13",
                                 "allotted thinking time exceeds the time remaining for the side to move",
                                 [cmd |-> e.text, side |-> root.stm, allotted |-> it, overflow |-> e.infotime_overflow,
                                  remaining |-> Remaining(e.params, root.stm)])
                          ELSE {}))
               /\ IF accepted
                  THEN /\ pending' = pending + 1 /\ sroot' = root /\ root' = NoPos
                       /\ go' = [t |-> e.t, params |-> e.params, infotime |-> it, stopped |-> FALSE, stopt |-> 0, fresh |-> waiting.fresh, quit |-> FALSE, cut |-> FALSE, plies |-> Len(rootrec)]
                       /\ waiting' = [waiting EXCEPT !.acc = NoAcc, !.fresh = FALSE]
                       /\ rootrec' = << >>
                  ELSE UNCHANGED <<rootrec, pending, sroot, root, go, waiting>>
       [] e.kind = "stop" ->
            /\ Report(common) /\ go' = [go EXCEPT !.stopped = TRUE, !.stopt = IF go.stopped THEN go.stopt ELSE e.t] /\ UNCHANGED <<rootrec, pending, root, sroot, waiting>>
       [] e.kind = "ucinewgame" ->
            \* (ucinewgame ends a running search as stop does: the go is "cut" for the premature-answer rule below)
            /\ Report(common) /\ root' = NoPos /\ waiting' = [waiting EXCEPT !.fresh = TRUE] /\ go' = [go EXCEPT !.cut = TRUE]
            /\ UNCHANGED <<rootrec, pending, sroot>>
       [] e.kind \in {"show", "d"} ->
            /\ Report(common
                 \cup (IF Has(e, "show") /\ ~e.refused /\ root # NoPos /\ e.show.fl # << >>
                       THEN F(Len(e.show.fl) >= 4 /\ SubSeq(e.show.fl, 1, 4) = FenFields(root) /\ e.show.rows = DiagramRows(root.board),
                              "C20", "show does not depict the position that was set", [want |-> FenLine(root), got |-> e.show.fl])
                            \cup F(e.show.hl = Hash(root), "C20", "the Hash line of show is not the hash of the position shown",
                                   [fen |-> FenLine(root), got |-> e.show.hl, want |-> Hash(root)])
                            \cup F(Len(e.show.rec) = Len(rootrec) /\ \A i \in 1..Len(rootrec) : e.show.rec[i] \in rootrec[i], "C20",
                                   "the move record of show does not show what was played", [got |-> e.show.rec, want |-> rootrec])
                       ELSE {}))
            /\ UNCHANGED <<rootrec, pending, root, sroot, go, waiting>>
       [] e.kind = "uci" ->
            /\ Report(common \cup F(Has(e, "uciok") => e.uciok, "C14", "uci was not answered with uciok", [after |-> e.text]))
            /\ UNCHANGED <<rootrec, pending, root, sroot, go, waiting>>
       [] e.kind = "quit" ->      \* the GUI gives up on whatever is still being searched: the pending go may or may not be
                                  \* answered before the process ends (a bestmove that does arrive is still judged)
            /\ Report(common) /\ go' = [go EXCEPT !.quit = TRUE] /\ UNCHANGED <<rootrec, pending, root, sroot, waiting>>
       [] OTHER -> Report(common) /\ UNCHANGED <<rootrec, pending, root, sroot, go, waiting>>
  /\ l' = l + 1

Best ==
  /\ IsEv("best")
  /\ LET e == Rec[l]
         lt == IF sroot = NoPos THEN {} ELSE LegalTexts(sroot)
         limited == Has(go.params, "depth") /\ ~go.stopped /\ ~Timed(go.params)
     IN Report(
          F(pending >= 1, "C14", "a bestmove arrived although no go was pending (more than one bestmove for a go)", [move |-> e.move])
          \cup (IF pending >= 1 /\ sroot # NoPos
                THEN F(IF lt = {} THEN e.move = "none" ELSE e.move \in lt, IF limited THEN "C06" ELSE "C07",
                       "bestmove is not a legal move of the position searched", [fen |-> FenLine(sroot), move |-> e.move, nlegal |-> Cardinality(lt)])
                ELSE {})
          \* C14: "exactly one bestmove (after stop, after the time budget, or at the depth limit)".  A go without any time
          \* parameter that was neither stopped nor cut by ucinewgame / quit ends on its own only at its depth limit, on a mate
          \* score, on an only move, or when the iteration depth runs out of stack room (>= 190 in these sessions): an answer
          \* whose last reported iteration is below 64 and below the limit, with ordinary scores and a choice of moves, was
          \* triggered by something else (a timer left over from an earlier go, a flag lowered by another thread).
          \cup (IF pending >= 1 /\ sroot # NoPos /\ ~go.stopped /\ ~go.quit /\ ~go.cut /\ ~AnyTime(go.params)
                   /\ Cardinality(lt) >= 2 /\ waiting.acc.depths # << >>
                THEN LET ds == waiting.acc.depths   sc == waiting.acc.scores
                         last == ds[Len(ds)]
                     IN F(~(/\ last < 64 /\ last + go.plies < 400    \* (stack room: the iteration depth ends at 512 - game length - 64)
                            /\ (Has(go.params, "depth") => last < go.params.depth)
                            /\ \A i \in 1..Len(sc) : sc[i] < 1000000000 /\ sc[i] > 0 - 1000000000),
                          "C14", "bestmove arrived for a go without time limit before stop and before its depth limit",
                          [go |-> go.params, last_depth |-> last, elapsed |-> e.t - go.t])
                ELSE {})
          \cup (IF pending >= 1 /\ go.infotime >= 0 /\ go.infotime <= 400 /\ ~go.stopped /\ ~Has(go.params, "depth")
                THEN F(e.t - go.t <= go.infotime + Tolerance, "C13", "best move announced long after the allotted time",
                       [allotted |-> go.infotime, elapsed |-> e.t - go.t])
                ELSE {}))
  /\ pending' = IF pending >= 1 THEN pending - 1 ELSE 0
  \* C19: a depth-limited search started from a fresh engine / right after ucinewgame is a function of (position, depth)
  /\ LET e == Rec[l]
         repro == pending >= 1 /\ go.fresh /\ sroot # NoPos /\ Has(go.params, "depth") /\ ~Timed(go.params)
                  /\ ~go.stopped /\ ~Has(go.params, "infinite")
         key == <<FenLine(sroot), go.params.depth>>
         result == [best |-> e.move, depths |-> waiting.acc.depths, scores |-> waiting.acc.scores, pvs |-> waiting.acc.pvs]
     IN /\ Report(IF repro
                  THEN UNION { F(x.r = result, "C19", "fixed-depth search after a reset is not reproducible",
                                 [fen |-> key[1], depth |-> key[2], first |-> x.r, now |-> result]) : x \in { y \in waiting.memo : y.k = key } }
                  ELSE {})
        /\ waiting' = [waiting EXCEPT !.acc = NoAcc,
                                      !.memo = IF repro /\ ~\E y \in waiting.memo : y.k = key THEN @ \cup { [k |-> key, r |-> result] } ELSE @]
  /\ UNCHANGED <<rootrec, root, sroot, go>> /\ l' = l + 1

Pv ==
  /\ IsEv("pv")
  /\ Report(IF sroot # NoPos /\ pending >= 1
            THEN F(Playable(sroot, Rec[l].line), "C18", "a printed principal variation is not a playable line",
                   [fen |-> FenLine(sroot), pv |-> Rec[l].line])
            ELSE {})
  /\ waiting' = [waiting EXCEPT !.acc.pvs = Append(@, Rec[l].line)]
  /\ UNCHANGED <<rootrec, pending, root, sroot, go>> /\ l' = l + 1

Depth ==
  /\ IsEv("depth")
  /\ Report(IF pending >= 1 /\ Has(go.params, "depth") /\ go.params.depth >= 1
            THEN F(Rec[l].d <= go.params.depth, "C08", "search went deeper than the depth limit", [limit |-> go.params.depth, depth |-> Rec[l].d])
            ELSE {})
  /\ waiting' = [waiting EXCEPT !.acc.depths = Append(@, Rec[l].d)]
  /\ UNCHANGED <<rootrec, pending, root, sroot, go>> /\ l' = l + 1

Score == /\ IsEv("score") /\ waiting' = [waiting EXCEPT !.acc.scores = Append(@, Rec[l].cp)]
         /\ UNCHANGED <<rootrec, pending, root, sroot, go>> /\ l' = l + 1

\* the driver waited (watchdog) for the bestmove of a go that is bounded by depth or time
Waited ==
  /\ IsEv("waited")
  \* judged only where the bound is short: a small time budget, or depth <= 3 (a deep depth-limited search may
  \* legitimately take longer than any watchdog)
  /\ Report(IF (Timed(go.params) /\ go.infotime >= 0 /\ go.infotime <= 3000 /\ ~Has(go.params, "infinite"))
               \/ (Has(go.params, "depth") /\ go.params.depth <= 3)
            THEN F(Rec[l].ok, "C14", "no bestmove arrived for a go bounded by a short time or depth (watchdog expired)",
                   [go |-> go.params, waited_ms |-> Rec[l].t - go.t])
            \* after stop the search has to unwind at once, whatever its limits: five seconds without an answer is a verdict
            ELSE IF pending >= 1 /\ go.stopped /\ Rec[l].t - go.stopt >= 5000
            THEN F(Rec[l].ok, "C14", "no bestmove arrived after stop (watchdog expired)", [go |-> go.params, waited_ms_after_stop |-> Rec[l].t - go.stopt])
                 \cup F(Rec[l].ok, "C07", "the search did not answer after stop (watchdog expired)", [go |-> go.params, waited_ms_after_stop |-> Rec[l].t - go.stopt])
            ELSE {})
  /\ UNCHANGED <<rootrec, pending, root, sroot, go, waiting>> /\ l' = l + 1

\* a burst of isready commands: every one is answered by a line that is exactly `readyok`
Burst ==
  /\ IsEv("burst")
  /\ Report(F(Rec[l].clean = Rec[l].sent /\ Rec[l].nglued = 0, "C14", "isready was not answered with a readyok line of its own",
              [sent |-> Rec[l].sent, clean |-> Rec[l].clean, glued_into_other_lines |-> Rec[l].glued]))
  /\ UNCHANGED <<rootrec, pending, root, sroot, go, waiting>> /\ l' = l + 1

Exit ==
  /\ IsEv("exit")
  /\ Report(F(Rec[l].clean, "C14", "the process did not exit cleanly on quit", [rc |-> Rec[l].rc, hung |-> Rec[l].hung]))
  /\ UNCHANGED <<rootrec, pending, root, sroot, go, waiting>> /\ l' = l + 1

End ==
  /\ IsEv("end")
  /\ Report(F(~Rec[l].panic, "C14", "the engine panicked", [stderr |-> Rec[l].stderr])
            \cup F(pending = 0 \/ (go.quit /\ pending = 1), "C14", "an accepted go was never answered with a bestmove", [pending |-> pending]))
  /\ UNCHANGED <<rootrec, pending, root, sroot, go, waiting>> /\ l' = l + 1

Next == Session \/ Cmd \/ Best \/ Pv \/ Depth \/ Score \/ Waited \/ Burst \/ Exit \/ End
Spec == Init /\ [][Next]_vars

Accepted ==
  IF TLCGet("stats").diameter = Len(Rec) + 1
  THEN PrintT(<<"TRACE-OK", Len(Rec)>>)
  ELSE PrintT(<<"TRACE-STUCK", TLCGet("stats").diameter, Len(Rec)>>) /\ FALSE
=============================================================================
