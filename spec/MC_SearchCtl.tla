---------------------------- MODULE MC_SearchCtl ----------------------------
EXTENDS SearchCtl
MCRoots == {"dead", "only", "two", "many", "mating"}
MCMoves == [r \in MCRoots |-> CASE r = "dead" -> 0 [] r = "only" -> 1 [] r = "two" -> 2 [] r = "many" -> 3 [] r = "mating" -> 2]
MCMating == [r \in MCRoots |-> r = "mating"]
MCLimits == {0, 1, 2, 3}
=============================================================================
