----------------------------- MODULE MC_Engine -----------------------------
(***************************************************************************)
(* Exhaustive exploration of Engine.tla: from every root, every sequence   *)
(* of up to Plies moves played into the record (PushHistory) and, at every *)
(* point, every nested play / take-back of generated moves (king captures  *)
(* included) up to depth Nest - what the UCI layer and the search do.      *)
(* Checked in every state: Engine!Consistent (incremental hash / score /   *)
(* caches / king cache equal the reference functions); on every push the   *)
(* position equals Chess!Apply; on every pop the whole state equals the    *)
(* state saved at the matching push (C02, C03, C04, C16 at design level).  *)
(***************************************************************************)
EXTENDS Engine, Json, IOUtils, TLC

CONSTANTS Plies, Nest
RootChars == JsonDeserialize(IOEnv.ROOTS)
Roots == { Parse(RootChars[i]) : i \in DOMAIN RootChars }

VARIABLES e, undo, played
vars == <<e, undo, played>>

BothKings(b) == HasKing(b, White) /\ HasKing(b, Black)

Init == /\ e \in { Load(p) : p \in Roots } /\ undo = << >> /\ played = 0

PushA ==
  /\ Len(undo) < Nest /\ BothKings(e.board)
  /\ \E m \in Pseudo(PosOfE(e)) :
       /\ e' = Push(e, m)
       /\ Assert(PosOfE(e') = Apply(PosOfE(e), m), <<"push is not Chess!Apply", m>>)
       /\ undo' = Append(undo, [m |-> m, cap |-> e.board[m.to], before |-> e])
  /\ UNCHANGED played

PopA ==
  /\ undo # << >>
  /\ LET u == undo[Len(undo)] IN
       /\ e' = Pop(e, u.m, u.cap)
       /\ Assert(e' = u.before, <<"pop does not restore the state", u.m>>)
  /\ undo' = SubSeq(undo, 1, Len(undo) - 1)
  /\ UNCHANGED played

PushHistA ==
  /\ undo = << >> /\ played < Plies
  /\ \E m \in Legal(PosOfE(e)) :
       /\ e' = PushHistory(e, m)
       /\ Assert(PosOfE(e') = Apply(PosOfE(e), m), <<"push_history is not Chess!Apply", m>>)
  /\ played' = played + 1 /\ UNCHANGED undo

Next == PushA \/ PopA \/ PushHistA
Spec == Init /\ [][Next]_vars

InvConsistent == Consistent(e)
InvStack == Len(e.stack) = 1 + played + Len(undo)
\* the `before` copies are history: hide them from the fingerprint
View == <<e, Len(undo), played>>
=============================================================================
