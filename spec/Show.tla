-------------------------------- MODULE Show --------------------------------
(***************************************************************************)
(* What the `show` output and the printed move record must say.            *)
(* The diagram is 8 rows, rank 8 first, files a..h left to right; the      *)
(* harness transliterates the twelve chess glyphs to FEN letters, an empty *)
(* cell to "." and anything else to "?".                                   *)
(* A move-record token names the moving piece (nothing for a pawn), its    *)
(* origin file, "x" if it captured, the destination square and, for a      *)
(* promotion, "=" and the piece promoted to; castling is O-O / O-O-O.      *)
(* (For promotions the origin file may be omitted: the property fixes the  *)
(* promotion letter, and the engine's own format drops the file there.)    *)
(***************************************************************************)
EXTENDS Chess

RowTxt(b, r) == b[SqOf(r, 0)] \o b[SqOf(r, 1)] \o b[SqOf(r, 2)] \o b[SqOf(r, 3)] \o
                b[SqOf(r, 4)] \o b[SqOf(r, 5)] \o b[SqOf(r, 6)] \o b[SqOf(r, 7)]
\* rows as <<label, cells>> pairs, rank 8 first
DiagramRows(b) == [i \in 1..8 |-> << RankCh[9 - i], RowTxt(b, 8 - i) >>]
FileLabels == "abcdefgh"

\* The tokens that name a move in the record: piece letter (none for a pawn), origin file, capture mark, destination,
\* promotion piece.  What the property does not speak about is left open: a castling move may be written O-O / O-O-O or
\* as the king's move, and a check (+) or mate (#) mark may follow.
RecTokens(pos, m) ==
  LET p == pos.board[m.from]
      kind == KindOf(p)
      of == FileCh[Col(m.from) + 1]
      x == IF IsCapture(pos, m) THEN "x" ELSE ""
      dest == SqTxt(m.to)
      plain == (IF kind = "P" THEN "" ELSE kind) \o of \o x \o dest
      core == CASE m.kind = "OO" -> {"O-O", plain}
                [] m.kind = "OOO" -> {"O-O-O", plain}
                [] m.promo # "" -> { x \o dest \o "=" \o m.promo, of \o x \o dest \o "=" \o m.promo }
                [] OTHER -> { plain }
  IN UNION { {t, t \o "+", t \o "#"} : t \in core }
=============================================================================
