//! Generates the list of the repository's top-level modules from /repo/src/main.rs, so that the harness follows the
//! repository when a module is added, removed or renamed: every `mod x;` of main.rs (with its attributes) is included
//! by path.  The harness' own modules are declared in src/main.rs.
use std::fmt::Write as _;
use std::path::Path;

const REPO_SRC: &str = "/repo/src/";

fn main() {
    let main_rs = format!("{}main.rs", REPO_SRC);
    println!("cargo:rerun-if-changed={}", main_rs);
    println!("cargo:rerun-if-changed=build.rs");
    let text = std::fs::read_to_string(&main_rs).expect("cannot read the repository's main.rs");
    let mut out = String::new();
    let mut attrs: Vec<String> = vec![];
    for line in text.lines() {
        let t = line.trim();
        if t.starts_with("#[") {
            attrs.push(t.to_string());
            continue;
        }
        let decl = t.strip_prefix("pub ").unwrap_or(t);
        if let Some(name) = decl.strip_prefix("mod ").and_then(|r| r.strip_suffix(';')) {
            let name = name.trim();
            let file = format!("{}{}.rs", REPO_SRC, name);
            let dir = format!("{}{}/mod.rs", REPO_SRC, name);
            let path = if Path::new(&file).exists() { file } else { dir };
            for a in attrs.iter().filter(|a| !a.starts_with("#[path")) {
                writeln!(out, "{}", a).unwrap();
            }
            writeln!(out, "#[path = \"{}\"]\npub mod {};", path, name).unwrap();
        }
        attrs.clear();
    }
    let dst = Path::new(&std::env::var("OUT_DIR").unwrap()).join("repo_mods.rs");
    std::fs::write(dst, out).unwrap();
}
