//! C09: dump the full game tree the search explores (the engine's own generator and leaf scores:
//! checked moves at interior nodes, unchecked at the frontier, tactical-only below it) and the score
//! the real optimised search returns for it with table lookups disabled, under several move-ordering
//! states (fresh and arbitrarily pre-filled history tables).  TLC evaluates the unpruned, unordered
//! reference (RefSearch.tla) on the dumped tree and compares.
//!
//! Script: {"cases": [{"fen": F, "pre": [...], "d": depth, "orders": k, "seed": s}]}
use crate::chess::Game;
use crate::obs::{self, guard};
use crate::play::{emit, open_out};
use crate::rng::Rng;
#[cfg(daniel729_chess_verif = "window")]
use crate::search::verif_window_search;
use crate::search::{get_best_move_entry, TranspositionTable};
use crate::searchdrv::{build_game, Capture};
use crate::verif;
use crate::Args;
use serde_json::{json, Value};
use std::io::Write;
use std::sync::atomic::AtomicBool;

const MAX_NODES: usize = 60000;

struct Node {
    ev: i32,
    kx: bool,
    chk: bool,
    nm: usize,
    r: i32,
    p: i32,
    ch: Vec<usize>,
    h: u64,
}

fn build(g: &mut Game, r: i32, ply: i32, is_root: bool, nodes: &mut Vec<Node>) -> usize {
    let id = nodes.len();
    let player = g.player();
    let side = if player == crate::chess::Player::White { 1 } else { -1 };
    let kx = g.king_exists(player);
    let chk = kx && g.is_targeted(g.get_king_position(player), player);
    nodes.push(Node { ev: g.score() as i32 * side, kx, chk, nm: 0, r, p: ply, ch: vec![], h: g.hash() });
    if nodes.len() > MAX_NODES {
        return id;
    }
    let mv = obs::gen(g, is_root || r >= 2);
    nodes[id].nm = mv.len();
    for m in mv {
        if r <= 0 && !m.is_tactical_move() {
            continue;
        }
        if nodes.len() > MAX_NODES {
            break;
        }
        g.push(m);
        let c = build(g, r - 1, ply + 1, false, nodes);
        g.pop(m);
        nodes[id].ch.push(c);
    }
    id
}

pub fn run(args: &Args) {
    let text = std::fs::read_to_string(args.req("script")).unwrap_or_else(|e| {
        eprintln!("TOOL-ERROR cannot read script: {}", e);
        std::process::exit(2)
    });
    let v: Value = serde_json::from_str(&text).unwrap();
    let mut out = open_out(args.req("out"));
    let mut cap = Capture::new();
    for case in v["cases"].as_array().cloned().unwrap_or_default() {
        let fen = case["fen"].as_str().unwrap_or("startpos").to_string();
        let pre: Vec<String> = case["pre"].as_array().map(|a| a.iter().map(|x| x.as_str().unwrap_or("").to_string()).collect()).unwrap_or_default();
        let d = case["d"].as_i64().unwrap_or(1) as i32;
        let orders = case["orders"].as_u64().unwrap_or(2) as usize;
        let mut rng = Rng::new(case["seed"].as_u64().unwrap_or(1));
        let base = json!({"ev": "tree", "fen": fen, "pre": pre, "d": d});
        let game = match build_game(&fen, &pre) {
            Ok(g) => g,
            Err(msg) => {
                let mut e = base.clone();
                e["skip"] = json!(msg);
                emit(&mut out, e);
                continue;
            }
        };
        if case.get("tt").is_some() {
            table_entries(&mut out, &mut cap, &game, &fen, &pre, d);
            continue;
        }
        if case.get("win").is_some() {
            windows(&mut out, &mut cap, &case, &game, &fen, &pre, d, &mut rng);
            continue;
        }
        let mut nodes: Vec<Node> = vec![];
        let mut g = game.clone();
        let built = guard(|| {
            build(&mut g, d, 0, true, &mut nodes);
        });
        if let Err(msg) = built {
            let mut e = base.clone();
            e["panic"] = json!(msg);
            emit(&mut out, e);
            continue;
        }
        if nodes.len() > MAX_NODES {
            let mut e = base.clone();
            e["skip"] = json!("tree too large");
            emit(&mut out, e);
            continue;
        }
        // the real search, table lookups disabled, under several ordering states
        let mut runs = vec![];
        for k in 0..orders {
            let mut hist = [0u16; 768];
            if k > 0 {
                for h in hist.iter_mut() {
                    *h = (rng.next() % 9000) as u16;
                }
            }
            let mut table: TranspositionTable = Default::default();
            let flag = AtomicBool::new(true);
            verif::reset(u64::MAX, true);
            cap.begin();
            let g2 = game.clone();
            let r = guard(|| get_best_move_entry(g2, &flag, d as u8, &mut table, &mut hist));
            let _ = cap.end();
            verif::reset(u64::MAX, false);
            match r {
                Ok(Some((best, score, only))) => runs.push(json!({"score": score, "only": only,
                    "best": best.map(|m| m.uci_notation()).unwrap_or("none".to_string()), "order": k, "polls": verif::POLLS.load(std::sync::atomic::Ordering::Relaxed)})),
                Ok(None) => runs.push(json!({"aborted": true, "order": k})),
                Err(msg) => runs.push(json!({"panic": msg, "order": k})),
            }
        }
        let js: Vec<Value> = nodes
            .iter()
            .map(|n| json!({"ev": n.ev, "kx": n.kx, "chk": n.chk, "nm": n.nm, "r": n.r, "p": n.p, "ch": n.ch.iter().map(|c| c + 1).collect::<Vec<_>>()}))
            .collect();
        let mut e = base.clone();
        e["n"] = json!(nodes.len());
        e["runs"] = json!(runs);
        e["nodes"] = json!(js);
        emit(&mut out, e);
    }
    out.flush().unwrap();
}

/// The fields of a table entry, read through its Debug form (`TableEntry { score: 12, pv: .., depth: 3, flag: Exact }`):
/// no hook needed, and nothing is reported when the form is not recognised.
fn entry_fields(dbg: &str) -> Option<Value> {
    let num = |key: &str| -> Option<i64> {
        let i = dbg.find(key)? + key.len();
        let rest = dbg[i..].trim_start();
        let end = rest.find(|c: char| !(c.is_ascii_digit() || c == '-')).unwrap_or(rest.len());
        rest[..end].parse().ok()
    };
    let flag = if dbg.contains("Exact") {
        "exact"
    } else if dbg.contains("LowerBound") {
        "lower"
    } else if dbg.contains("UpperBound") {
        "upper"
    } else {
        return None;
    };
    Some(json!({"d": num("depth:")?, "score": num("score:")?, "flag": flag}))
}

/// Design-level binding of PvsTable.tla: search the position to depth 1..d on one table as the engine does, then dump the
/// tree with, at every interior node, the table entry found under that node's hash.
fn table_entries(out: &mut crate::play::Out, cap: &mut Capture, game: &Game, fen: &str, pre: &[String], d: i32) {
    let base = json!({"ev": "tt", "fen": fen, "pre": pre, "d": d});
    let mut table: TranspositionTable = Default::default();
    let mut hist = [0u16; 768];
    let flag = AtomicBool::new(true);
    verif::reset(u64::MAX, false);
    cap.begin();
    let mut okrun = true;
    for depth in 1..=d {
        let g2 = game.clone();
        if guard(|| get_best_move_entry(g2, &flag, depth as u8, &mut table, &mut hist)).is_err() {
            okrun = false;
            break;
        }
    }
    let _ = cap.end();
    let mut nodes: Vec<Node> = vec![];
    let mut g = game.clone();
    let built = guard(|| {
        build(&mut g, d, 0, true, &mut nodes);
    });
    if !okrun || built.is_err() || nodes.len() > MAX_NODES {
        let mut e = base.clone();
        e["skip"] = json!(if okrun { "tree too large" } else { "search panicked" });
        emit(out, e);
        return;
    }
    let mut js = nodes_json(&nodes);
    let mut found = 0;
    for (i, n) in nodes.iter().enumerate() {
        if i > 0 && n.r >= 2 {
            if let Some(f) = table.get(&n.h).and_then(|en| entry_fields(&format!("{:?}", en))) {
                js[i]["te"] = f;
                found += 1;
            }
        }
    }
    let mut e = base.clone();
    e["n"] = json!(nodes.len());
    e["entries"] = json!(found);
    e["nodes"] = json!(js);
    emit(out, e);
}

fn nodes_json(nodes: &[Node]) -> Vec<Value> {
    nodes
        .iter()
        .map(|n| json!({"ev": n.ev, "kx": n.kx, "chk": n.chk, "nm": n.nm, "r": n.r, "p": n.p, "ch": n.ch.iter().map(|c| c + 1).collect::<Vec<_>>()}))
        .collect()
}

const WLIM: i32 = 14000;

/// C09, window level: the windowed search is called as an interior node (any window, depth d, table lookups
/// disabled, fresh or arbitrary history) on the position itself or on the positions after each pseudo-legal but
/// illegal move (the mover's king can be taken), and the tree below it is dumped for the exhaustive reference.
#[cfg(not(daniel729_chess_verif = "window"))]
#[allow(clippy::too_many_arguments)]
fn windows(out: &mut crate::play::Out, _cap: &mut Capture, _case: &Value, _game: &Game, fen: &str, pre: &[String], d: i32, _rng: &mut Rng) {
    // built without the window hook (it did not compile against this tree): the case is skipped, visibly
    emit(out, json!({"ev": "win", "fen": fen, "pre": pre, "d": d, "via": "", "skip": "window hook not built"}));
}

#[cfg(daniel729_chess_verif = "window")]
#[allow(clippy::too_many_arguments)]
fn windows(out: &mut crate::play::Out, cap: &mut Capture, case: &Value, game: &Game, fen: &str, pre: &[String], d: i32, rng: &mut Rng) {
    let nwin = case["win"].as_u64().unwrap_or(8) as usize;
    let mut targets: Vec<(String, Game)> = vec![];
    if case["illegal"].as_bool().unwrap_or(false) {
        let mut g = game.clone();
        let legal = obs::texts(&obs::gen(&mut g, true));
        for m in obs::gen(&mut g, false) {
            if !legal.contains(&m.uci_notation()) && targets.len() < 4 {
                let mut g2 = game.clone();
                g2.push(m);
                targets.push((m.uci_notation(), g2));
            }
        }
    } else {
        targets.push((String::new(), game.clone()));
    }
    for (via, tgt) in targets {
        let base = json!({"ev": "win", "fen": fen, "pre": pre, "d": d, "via": via, "win": nwin, "seed": case["seed"].as_u64().unwrap_or(1),
                          "illegal": case["illegal"].as_bool().unwrap_or(false)});
        let mut nodes: Vec<Node> = vec![];
        let mut g = tgt.clone();
        let built = guard(|| {
            build(&mut g, d, 0, false, &mut nodes);
        });
        if let Err(msg) = built {
            let mut e = base.clone();
            e["panic"] = json!(msg);
            emit(out, e);
            continue;
        }
        if nodes.len() > MAX_NODES {
            let mut e = base.clone();
            e["skip"] = json!("tree too large");
            emit(out, e);
            continue;
        }
        let mut search = |a: i32, b: i32, order: usize, rng: &mut Rng| -> Value {
            let mut hist = [0u16; 768];
            if order > 0 {
                for h in hist.iter_mut() {
                    *h = (rng.next() % 9000) as u16;
                }
            }
            let mut table: TranspositionTable = Default::default();
            let flag = AtomicBool::new(true);
            verif::reset(u64::MAX, true);
            cap.begin();
            let mut g2 = tgt.clone();
            let r = guard(|| verif_window_search(&mut g2, &mut table, &flag, d as u8, 0, a as i16, b as i16, &mut hist));
            let _ = cap.end();
            verif::reset(u64::MAX, false);
            match r {
                Ok(Some(score)) => json!({"a": a, "b": b, "score": score, "order": order}),
                Ok(None) => json!({"a": a, "b": b, "aborted": true, "order": order}),
                Err(msg) => json!({"a": a, "b": b, "panic": msg, "order": order}),
            }
        };
        let mut runs = vec![search(-WLIM, WLIM, 0, rng)];
        let v0 = runs[0]["score"].as_i64().unwrap_or(0) as i32;
        let ev = nodes[0].ev;
        let mut bases: Vec<i32> = vec![-WLIM, WLIM];
        for c in [ev, v0] {
            for dl in [-2600, -1801, -1000, -300, -1, 0, 1, 300, 1000, 1801, 2600] {
                bases.push((c + dl).clamp(-WLIM, WLIM));
            }
        }
        for k in 0..nwin {
            let a = bases[(rng.next() % bases.len() as u64) as usize];
            let b = if k % 2 == 0 { a + 1 } else { bases[(rng.next() % bases.len() as u64) as usize] };
            let (a, b) = if a < b { (a, b) } else if b < a { (b, a) } else { (a, a + 1) };
            if b > WLIM + 1 {
                continue;
            }
            runs.push(search(a, b, k % 2, rng));
        }
        let mut e = base.clone();
        e["n"] = json!(nodes.len());
        e["runs"] = json!(runs);
        e["nodes"] = json!(nodes_json(&nodes));
        emit(out, e);
    }
}
