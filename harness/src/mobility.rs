//! C15: hill-climbing over boards the FEN reader accepts, maximising the number of generated
//! (unchecked) moves, to drive the 256-entry move buffer.  `--material 1` restricts the search to
//! boards whose material is reachable in a game (<= 8 pawns a side, promoted pieces paid for by
//! missing pawns); `--material 0` allows any board with one king each.
use crate::chess::Game;
use crate::obs::{self, guard};
use crate::play::{emit, open_out};
use crate::rng::Rng;
use crate::Args;
use serde_json::json;
use std::io::Write;

fn fen_of(cells: &[char; 64], side: char) -> String {
    let mut s = String::new();
    for r in (0..8).rev() {
        let mut run = 0;
        for c in 0..8 {
            let x = cells[r * 8 + c];
            if x == '.' {
                run += 1;
            } else {
                if run > 0 {
                    s.push_str(&run.to_string());
                    run = 0;
                }
                s.push(x);
            }
        }
        if run > 0 {
            s.push_str(&run.to_string());
        }
        if r > 0 {
            s.push('/');
        }
    }
    format!("{} {} - - 0 1", s, side)
}

fn material_ok(cells: &[char; 64]) -> bool {
    for (up, lo) in [(true, false), (false, true)] {
        let _ = lo;
        let cnt = |ch: char| cells.iter().filter(|&&c| c == if up { ch } else { ch.to_ascii_lowercase() }).count() as i32;
        let pawns = cnt('P');
        let promoted = (cnt('Q') - 1).max(0) + (cnt('R') - 2).max(0) + (cnt('B') - 2).max(0) + (cnt('N') - 2).max(0);
        if pawns > 8 || promoted > 8 - pawns {
            return false;
        }
    }
    true
}

fn valid(cells: &[char; 64]) -> bool {
    let wk = cells.iter().filter(|&&c| c == 'K').count();
    let bk = cells.iter().filter(|&&c| c == 'k').count();
    if wk != 1 || bk != 1 {
        return false;
    }
    for i in (0..8).chain(56..64) {
        if cells[i] == 'P' || cells[i] == 'p' {
            return false;
        }
    }
    true
}

/// number of unchecked moves, or Err(panic message)
fn count(fen: &str) -> Result<Option<usize>, String> {
    guard(|| match Game::new(fen) {
        Ok(mut g) => Some(obs::gen(&mut g, false).len()),
        Err(_) => None,
    })
}

pub fn run(args: &Args) {
    let mut out = open_out(args.req("out"));
    let mut rng = Rng::new(args.num("seed", 1));
    let iters = args.num("iters", 20000);
    let material = args.num("material", 1) == 1;
    let restarts = args.num("restarts", 4);
    let pieces: Vec<char> = ".QRBNPqrbnp".chars().collect();
    for rs in 0..restarts {
        let mut cells = ['.'; 64];
        cells[0] = 'K';
        cells[63] = 'k';
        if !material && rs % 2 == 1 {
            // seed: the known 218-move position
            let seed_fen = if rs % 4 == 1 { "R6R/3Q4/1Q4Q1/4Q3/2Q4Q/Q4Q2/pp1Q4/kBNN1KB1" } else { "QQQQ3k/Q4QQ1/7Q/Q6Q/Q6Q/Q2Q3Q/Q4QQ1/KQQQ4" };
            let mut i = 0;
            let mut c2 = ['.'; 64];
            for (ri, rank) in seed_fen.split('/').enumerate() {
                let r = 7 - ri;
                let mut f = 0;
                for ch in rank.chars() {
                    if let Some(d) = ch.to_digit(10) {
                        f += d as usize;
                    } else {
                        c2[r * 8 + f] = ch;
                        f += 1;
                    }
                }
                i += 1;
            }
            let _ = i;
            cells = c2;
        }
        let mut best = 0usize;
        let mut best_fen = fen_of(&cells, 'w');
        let mut panic_msg: Option<String> = None;
        for _ in 0..iters {
            let mut c = cells;
            let k = 1 + rng.below(2);
            for _ in 0..k {
                let i = rng.below(64);
                if c[i] == 'K' || c[i] == 'k' {
                    // move a king to an empty square
                    let j = rng.below(64);
                    if c[j] == '.' {
                        c[j] = c[i];
                        c[i] = '.';
                    }
                } else {
                    c[i] = pieces[rng.below(pieces.len())];
                }
            }
            if !valid(&c) || (material && !material_ok(&c)) {
                continue;
            }
            let fen = fen_of(&c, 'w');
            match count(&fen) {
                Ok(Some(n)) => {
                    if n >= best {
                        best = n;
                        best_fen = fen;
                        cells = c;
                    }
                }
                Ok(None) => {}
                Err(msg) => {
                    // arithmetic overflow of the i16 score on monster boards is not a bounds matter: skip the candidate
                    if msg.contains("overflow") && !msg.contains("CAPACITY") {
                        continue;
                    }
                    panic_msg = Some(msg);
                    best_fen = fen;
                    break;
                }
            }
        }
        emit(&mut out, json!({"ev": "mob", "fen": obs::chars(&best_fen), "n": best, "material": material,
                              "panic": panic_msg.is_some(), "msg": panic_msg.unwrap_or_default(), "restart": rs}));
    }
    out.flush().unwrap();
}
