//! Search driver: executes histories of searches that share one transposition table, exactly
//! as the UCI layer does (get_best_move_until_stop on a Game built by text import + push_history),
//! with the poll hook clearing the flag after a prescribed number of polls, a watchdog standing in
//! for "left running until stopped", and the engine's own stdout (info lines) captured per search.
//!
//! Script (JSON): {"histories": [ [step, ...], ... ]}, step =
//!   {"fen": F, "pre": [moves], "limit": d|null, "stop": N|null, "fresh": bool, "watch_ms": T,
//!    "mate": 0|1|2, "tag": any}
//! One `go` event per step.
use crate::chess::move_struct::Move;
use crate::chess::Game;
use crate::constants::TT_CAPACITY;
use crate::obs::{self, guard};
use crate::play::{emit, open_out};
use crate::search::{get_best_move_until_stop, TranspositionTable};
use crate::verif;
use crate::Args;
use serde_json::{json, Value};
use std::io::{Read, Seek, SeekFrom, Write};
use std::os::unix::io::AsRawFd;
use std::sync::atomic::{AtomicBool, Ordering::Relaxed};

pub struct Capture {
    file: std::fs::File,
    saved: i32,
}

impl Capture {
    pub fn new() -> Self {
        let path = format!("/tmp/vh-capture-{}", std::process::id());
        let file = std::fs::OpenOptions::new().read(true).write(true).create(true).truncate(true).open(&path).unwrap();
        let _ = std::fs::remove_file(&path);
        Capture { file, saved: -1 }
    }
    pub fn begin(&mut self) {
        std::io::stdout().flush().ok();
        self.file.set_len(0).unwrap();
        self.file.seek(SeekFrom::Start(0)).unwrap();
        unsafe {
            self.saved = libc::dup(1);
            libc::dup2(self.file.as_raw_fd(), 1);
        }
    }
    pub fn end(&mut self) -> String {
        std::io::stdout().flush().ok();
        unsafe {
            libc::dup2(self.saved, 1);
            libc::close(self.saved);
        }
        let mut s = String::new();
        self.file.seek(SeekFrom::Start(0)).unwrap();
        self.file.read_to_string(&mut s).ok();
        s
    }
}

/// project the info lines of one search
pub fn project_info(text: &str) -> Value {
    let mut depths = vec![];
    let mut scores = vec![];
    let mut pvs: Vec<Vec<String>> = vec![];
    let mut other = 0;
    // any standard UCI info line: one field per line (as the engine prints them) or several fields on one line
    for line in text.lines() {
        let toks: Vec<&str> = line.split_ascii_whitespace().collect();
        if toks.first() != Some(&"info") {
            if !line.trim().is_empty() {
                other += 1;
            }
            continue;
        }
        let mut i = 1;
        while i < toks.len() {
            match toks[i] {
                "pv" => {
                    pvs.push(toks[i + 1..].iter().map(|s| s.to_string()).collect());
                    break;
                }
                "string" => break,
                "depth" => {
                    depths.push(toks.get(i + 1).and_then(|t| t.parse::<i64>().ok()).unwrap_or(-1));
                    i += 2;
                }
                "score" if i + 2 < toks.len() && (toks[i + 1] == "cp" || toks[i + 1] == "mate") => {
                    let v = toks[i + 2].parse::<i64>().unwrap_or(-99999);
                    scores.push(if toks[i + 1] == "cp" || v == -99999 { v } else { (32000 - v.abs()) * v.signum() });
                    i += 3;
                }
                _ => i += 1,
            }
        }
    }
    json!({"depths": depths, "scores": scores, "pvs": pvs, "other": other})
}

pub fn new_table() -> TranspositionTable {
    // small initial capacity: the table grows on demand (the binary pre-allocates TT_CAPACITY)
    let _ = TT_CAPACITY;
    TranspositionTable::default()
}

pub fn build_game(fen: &str, pre: &[String]) -> Result<Game, String> {
    let mut g = if fen == "startpos" {
        Game::default()
    } else {
        guard(|| Game::new(fen))?.map_err(|e| format!("import failed: {}", e))?
    };
    for t in pre {
        let lg = guard(|| obs::gen(&mut g, true))?;
        let m = lg.iter().find(|m| m.uci_notation() == *t).copied().ok_or(format!("prefix move {} not legal", t))?;
        guard(|| g.push_history(m))?;
    }
    Ok(g)
}

pub fn run(args: &Args) {
    let text = std::fs::read_to_string(args.req("script")).unwrap_or_else(|e| {
        eprintln!("TOOL-ERROR cannot read script: {}", e);
        std::process::exit(2)
    });
    let v: Value = serde_json::from_str(&text).unwrap();
    let mut out = open_out(args.req("out"));
    let mut cap = Capture::new();
    let histories = v["histories"].as_array().cloned().unwrap_or_default();
    for (hi, hist) in histories.iter().enumerate() {
        let mut table = new_table();
        let mut last_root: Option<(String, Vec<String>)> = None;
        for (si, step) in hist.as_array().cloned().unwrap_or_default().iter().enumerate() {
            let mut fen = step["fen"].as_str().unwrap_or("startpos").to_string();
            let mut pre: Vec<String> = step["pre"].as_array().map(|a| a.iter().map(|x| x.as_str().unwrap_or("").to_string()).collect()).unwrap_or_default();
            // "child": j  - search the position reached from the PREVIOUS step's root by its j-th legal move
            // (an interior node of the previous search), on the same table
            if let Some(j) = step["child"].as_u64() {
                if let Some((pf, pp)) = last_root.clone() {
                    if let Ok(mut g) = build_game(&pf, &pp) {
                        let lg = obs::gen(&mut g, true);
                        if !lg.is_empty() {
                            fen = pf;
                            pre = pp;
                            pre.push(lg[(j as usize) % lg.len()].uci_notation());
                        }
                    }
                }
            }
            last_root = Some((fen.clone(), pre.clone()));
            let limit = step["limit"].as_u64().map(|d| d as u8);
            let stop = step["stop"].as_u64();
            let watch_ms = step["watch_ms"].as_u64().unwrap_or(5000);
            if step["fresh"].as_bool().unwrap_or(false) {
                table.clear();
            }
            let base = json!({"ev": "go", "h": hi, "s": si, "fen": if fen == "startpos" { json!(["startpos"]) } else { obs::chars(&fen) },
                              "pre": pre, "limit": limit.map(|d| d as i64).unwrap_or(-1), "stop": stop.map(|n| n as i64).unwrap_or(-1),
                              "fresh": si == 0 || step["fresh"].as_bool().unwrap_or(false),
                              "mate": step["mate"].as_i64().unwrap_or(0), "tag": step["tag"].as_str().unwrap_or("").to_string()});
            let mut base = base;
            if let Some(xd) = step["xd"].as_array() {
                base["xd"] = json!(xd);
            }
            let game = match build_game(&fen, &pre) {
                Ok(g) => g,
                Err(msg) => {
                    let mut e = base.clone();
                    e["setup_error"] = json!(msg);
                    emit(&mut out, e);
                    continue;
                }
            };
            let flag = AtomicBool::new(true);
            out.flush().unwrap();
            let wedge_fd = out.get_ref().as_raw_fd();
            verif::reset(stop.unwrap_or(u64::MAX), false);
            cap.begin();
            let mut external = false;
            let t0 = std::time::Instant::now();
            let result: Result<Option<Move>, String> = std::thread::scope(|sc| {
                let g2 = game.clone();
                let tref = &mut table;
                let fref = &flag;
                let h = sc.spawn(move || guard(|| get_best_move_until_stop(&g2, tref, fref, limit)));
                let deadline = t0 + std::time::Duration::from_millis(watch_ms);
                while !h.is_finished() {
                    let now = std::time::Instant::now();
                    if now >= deadline && !external {
                        external = true;
                        flag.store(false, Relaxed);
                    }
                    // the flag has been down for 15 s and the call still has not returned: the search is
                    // wedged; report it and give up on this process (a thread cannot be killed)
                    if now >= deadline + std::time::Duration::from_secs(15) {
                        let mut e = base.clone();
                        e["hung"] = json!(true);
                        let line = format!("{}\n", e);
                        unsafe {
                            libc::write(wedge_fd, line.as_ptr() as *const libc::c_void, line.len());
                            libc::_exit(3);
                        }
                    }
                    std::thread::sleep(std::time::Duration::from_micros(200));
                }
                h.join().unwrap_or(Err("search thread died".to_string()))
            });
            let info = cap.end();
            let mut e = base.clone();
            e["ms"] = json!(t0.elapsed().as_millis() as u64);
            e["external_stop"] = json!(external);
            e["polls"] = json!(verif::POLLS.load(Relaxed));
            e["after"] = json!(verif::POLLS_AFTER_STOP.load(Relaxed));
            e["maxply"] = json!(verif::MAX_REAL_DEPTH.load(Relaxed));
            e["tsize"] = json!(table.len());
            e["info"] = project_info(&info);
            match result {
                Ok(best) => {
                    e["panic"] = json!(false);
                    e["best"] = match best {
                        Some(m) => json!(m.uci_notation()),
                        None => json!("none"),
                    };
                }
                Err(msg) => {
                    e["panic"] = json!(true);
                    e["msg"] = json!(msg);
                    e["best"] = json!("none");
                    // a panic may leave the table half-written; start the next step from a fresh one
                    table = new_table();
                }
            }
            emit(&mut out, e);
        }
    }
    out.flush().unwrap();
}

/// `cycles`: find perpetual-check shuttles - the attacker checks alternately from two squares and the
/// defender has exactly one legal reply each time - and print the move prefix after which the repetition
/// filter of the search is armed while the side to move has a single legal move (scenario generation for
/// C06; legality is judged by TLC afterwards, not here).
pub fn run_cycles(args: &Args) {
    let fens = crate::play::read_lines(args.req("fens"));
    let mut out = open_out(args.req("out"));
    let limit = args.num("max", 200) as usize;
    let mut found = 0usize;
    'outer: for fen in fens {
        let Ok(Ok(root)) = guard(|| Game::new(&fen)) else { continue };
        // forced(g, m): play m; the opponent must have exactly one legal reply; returns (reply, game after reply)
        let forced = |g: &Game, m: Move| -> Option<(Move, Game)> {
            let mut h = g.clone();
            h.push_history(m);
            let p = h.player();
            if !h.is_targeted(h.get_king_position(p), p) {
                return None;
            }
            let lg = obs::gen(&mut h, true);
            if lg.len() != 1 {
                return None;
            }
            let r = lg[0];
            h.push_history(r);
            Some((r, h))
        };
        let mut g0 = root.clone();
        for a1 in obs::gen(&mut g0, true) {
            let Some((d1, s1)) = forced(&root, a1) else { continue };
            let mut g1 = s1.clone();
            for a2 in obs::gen(&mut g1, true) {
                let Some((d2, s2)) = forced(&s1, a2) else { continue };
                let mut g2 = s2.clone();
                for a3 in obs::gen(&mut g2, true) {
                    let Some((d3, s3)) = forced(&s2, a3) else { continue };
                    // the shuttle: a4 must be the same move as a2, a5 the same as a3
                    let mut g3 = s3.clone();
                    let Some(a4) = obs::gen(&mut g3, true).into_iter().find(|m| *m == a2) else { continue };
                    let Some((d4, s4)) = forced(&s3, a4) else { continue };
                    let mut g4 = s4.clone();
                    let Some(a5) = obs::gen(&mut g4, true).into_iter().find(|m| *m == a3) else { continue };
                    let mut s5 = s4.clone();
                    s5.push_history(a5);
                    let lg = obs::gen(&mut s5, true);
                    if lg.len() != 1 {
                        continue;
                    }
                    let pre: Vec<String> = [a1, d1, a2, d2, a3, d3, a4, d4, a5].iter().map(|m| m.uci_notation()).collect();
                    emit(&mut out, json!({"fen": fen, "pre": pre, "only": lg[0].uci_notation()}));
                    found += 1;
                    if found >= limit {
                        break 'outer;
                    }
                    continue 'outer;
                }
            }
        }
    }
    out.flush().unwrap();
}
