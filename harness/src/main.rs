//! Verification harness for RustyBait (Daniel729/chess).
//!
//! The repository is a bin-only crate, so its sources are included by path;
//! cargo tracks those files and every check rebuilds from /repo's working tree.
//! This program never decides a property: it drives the real code and writes
//! observation events (ndjson) that the TLA+ trace specifications judge.
#![allow(dead_code, unused_imports, clippy::all)]

#[path = "/repo/src/chess/mod.rs"]
mod chess;
#[path = "/repo/src/constants.rs"]
mod constants;
#[path = "/repo/src/search.rs"]
mod search;
#[path = "/repo/src/verif.rs"]
mod verif;
/// the compiled score tables, included a second time as plain data
#[path = "/repo/src/chess/scores.rs"]
mod scoredata;

mod fenmut;
mod mobility;
mod obs;
mod play;
mod rng;
mod searchdrv;
mod tree;

use std::collections::HashMap;

pub struct Args {
    pub cmd: String,
    pub kv: HashMap<String, String>,
}

impl Args {
    pub fn get(&self, k: &str) -> Option<&str> {
        self.kv.get(k).map(|s| s.as_str())
    }
    pub fn num(&self, k: &str, default: u64) -> u64 {
        self.get(k).and_then(|s| s.parse().ok()).unwrap_or(default)
    }
    pub fn req(&self, k: &str) -> &str {
        self.get(k).unwrap_or_else(|| {
            eprintln!("TOOL-ERROR missing argument --{}", k);
            std::process::exit(2)
        })
    }
}

fn main() {
    let mut it = std::env::args().skip(1);
    let cmd = it.next().unwrap_or_default();
    let mut kv = HashMap::new();
    let rest: Vec<String> = it.collect();
    let mut i = 0;
    while i < rest.len() {
        if let Some(k) = rest[i].strip_prefix("--") {
            let v = rest.get(i + 1).cloned().unwrap_or_default();
            kv.insert(k.to_string(), v);
            i += 2;
        } else {
            i += 1;
        }
    }
    let args = Args { cmd, kv };
    obs::install_panic_hook();
    match args.cmd.as_str() {
        "tables" => obs::dump_tables(),
        "play" => play::run_play(&args),
        "fens" => play::run_fens(&args),
        "replay" => play::run_replay(&args),
        "fenmut" | "variants" => fenmut::run(&args),
        "search" => searchdrv::run(&args),
        "cycles" => searchdrv::run_cycles(&args),
        "mobility" => mobility::run(&args),
        "tree" => tree::run(&args),
        other => {
            eprintln!("TOOL-ERROR unknown command {:?}", other);
            std::process::exit(2);
        }
    }
}
