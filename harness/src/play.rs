//! Drivers that exercise the rules layer (Game) and record observation traces:
//! `play`  - weighted-random legal games from a list of roots, with search-style
//!           nested push/pop walks, queries, re-import and a colour-mirrored twin game;
//! `fens`  - import a list of FENs (TLC-generated families), observe, and play/take back
//!           every generated move once.
use crate::chess::move_struct::Move;
use crate::chess::Game;
use crate::obs::{self, guard};
use crate::rng::Rng;
use crate::Args;
use serde_json::{json, Value};
use std::io::{BufWriter, Write};

pub type Out = BufWriter<std::fs::File>;

pub fn open_out(path: &str) -> Out {
    BufWriter::new(std::fs::File::create(path).unwrap_or_else(|e| {
        eprintln!("TOOL-ERROR cannot create {}: {}", path, e);
        std::process::exit(2)
    }))
}

pub fn emit(out: &mut Out, v: Value) {
    writeln!(out, "{}", v).unwrap();
}

pub fn read_lines(path: &str) -> Vec<String> {
    std::fs::read_to_string(path)
        .unwrap_or_else(|e| {
            eprintln!("TOOL-ERROR cannot read {}: {}", path, e);
            std::process::exit(2)
        })
        .lines()
        .map(|l| l.trim().to_string())
        .filter(|l| !l.is_empty() && !l.starts_with('#'))
        .collect()
}

/// colour-mirror a FEN (ranks reversed, case swapped, side swapped)
pub fn mirror_fen(fen: &str) -> String {
    let f: Vec<&str> = fen.split(' ').collect();
    let swap = |s: &str| -> String {
        s.chars()
            .map(|c| {
                if c.is_ascii_uppercase() {
                    c.to_ascii_lowercase()
                } else {
                    c.to_ascii_uppercase()
                }
            })
            .collect()
    };
    let ranks: Vec<String> = f[0].split('/').rev().map(|r| swap(r)).collect();
    let side = if f[1] == "w" { "b" } else { "w" };
    let cast = if f[2] == "-" {
        "-".to_string()
    } else {
        // keep the conventional KQkq order
        let s = swap(f[2]);
        let mut o = String::new();
        for c in ['K', 'Q', 'k', 'q'] {
            if s.contains(c) {
                o.push(c);
            }
        }
        o
    };
    let ep = if f[3] == "-" {
        "-".to_string()
    } else {
        let b = f[3].as_bytes();
        format!("{}{}", b[0] as char, if b[1] == b'3' { '6' } else { '3' })
    };
    format!("{} {} {} {} 0 1", ranks.join("/"), side, cast, ep)
}

pub fn mirror_move_text(m: &str) -> String {
    let b = m.as_bytes();
    let flip = |r: u8| -> char { (b'1' + (b'8' - r)) as char };
    let mut s = String::new();
    s.push(b[0] as char);
    s.push(flip(b[1]));
    s.push(b[2] as char);
    s.push(flip(b[3]));
    if b.len() > 4 {
        s.push(b[4] as char);
    }
    s
}

fn weight(m: &Move) -> u64 {
    match m {
        Move::Promotion { .. } => 6,
        Move::EnPassant { .. } => 12,
        Move::CastlingLong { .. } | Move::CastlingShort { .. } => 8,
        Move::Normal { captured_piece, .. } => {
            if captured_piece.is_some() {
                3
            } else {
                1
            }
        }
    }
}

fn pick(rng: &mut Rng, mv: &[Move]) -> Move {
    let total: u64 = mv.iter().map(weight).sum();
    let mut r = rng.next() % total;
    for m in mv {
        let w = weight(m);
        if r < w {
            return *m;
        }
        r -= w;
    }
    mv[0]
}

/// search-style nested play / take-back over the unchecked list
fn walk(g: &mut Game, depth: u32, breadth: usize, rng: &mut Rng, out: &mut Out) -> Result<(), String> {
    if depth == 0 {
        return Ok(());
    }
    let mv = guard(|| obs::gen(g, false))?;
    if mv.is_empty() {
        return Ok(());
    }
    let mut idx: Vec<usize> = (0..mv.len()).collect();
    // random subset, but always keep moves that capture (king captures included)
    for i in (1..idx.len()).rev() {
        idx.swap(i, rng.below(i + 1));
    }
    let mut chosen: Vec<usize> = idx.iter().copied().take(breadth).collect();
    for (i, m) in mv.iter().enumerate() {
        if weight(m) > 3 && !chosen.contains(&i) && chosen.len() < breadth + 3 {
            chosen.push(i);
        }
    }
    for i in chosen {
        let m = mv[i];
        guard(|| g.push(m))?;
        emit(out, json!({"ev": "push", "mv": m.uci_notation(), "hist": false, "o": obs::raw(g)}));
        walk(g, depth - 1, breadth, rng, out)?;
        guard(|| g.pop(m))?;
        emit(out, json!({"ev": "pop", "o": obs::raw(g)}));
    }
    Ok(())
}

fn queries(g: &mut Game, out: &mut Out, reimport: bool) -> Result<Vec<Move>, String> {
    let lg = guard(|| obs::gen(g, true))?;
    emit(out, json!({"ev": "q", "what": "lg", "val": obs::texts(&lg), "o": obs::raw(g)}));
    let ps = guard(|| obs::gen(g, false))?;
    emit(out, json!({"ev": "q", "what": "ps", "val": obs::texts(&ps), "o": obs::raw(g)}));
    let fen = guard(|| g.fen())?;
    emit(out, json!({"ev": "q", "what": "fen", "val": obs::chars(&fen), "o": obs::raw(g)}));
    let text = guard(|| format!("{}", g))?;
    emit(out, json!({"ev": "q", "what": "dia", "val": obs::project_display(&text), "o": obs::raw(g)}));
    // every move's text reads back as the same move
    let mut rt = vec![];
    for m in &lg {
        let t = m.uci_notation();
        let back = guard(|| Move::from_uci_notation(&t, g))?;
        rt.push(json!([t, back.map(|b| b == *m).unwrap_or(false)]));
    }
    emit(out, json!({"ev": "q", "what": "rt", "val": rt, "o": obs::raw(g)}));
    if reimport {
        match guard(|| Game::new(&fen))? {
            Ok(mut g2) => {
                let lg2 = guard(|| obs::gen(&mut g2, true))?;
                emit(out, json!({"ev": "reimp", "ok": true, "o": obs::raw(&g2), "lg": obs::texts(&lg2)}));
            }
            Err(e) => emit(out, json!({"ev": "reimp", "ok": false, "err": format!("{}", e)})),
        }
    }
    Ok(lg)
}

fn one_game(root: &str, plies: usize, walk_depth: u32, capture: u64, rng: &mut Rng, out: &mut Out) -> Result<(), String> {
    let mut g = match guard(|| Game::new(root))? {
        Ok(g) => g,
        Err(e) => {
            emit(out, json!({"ev": "new", "fen": obs::chars(root), "ok": false, "err": format!("{}", e)}));
            return Ok(());
        }
    };
    emit(out, json!({"ev": "new", "fen": obs::chars(root), "ok": true, "o": obs::raw(&g)}));
    let mfen = mirror_fen(root);
    let mut g2 = guard(|| Game::new(&mfen))?.map_err(|e| format!("mirror import failed: {}", e))?;
    emit(out, json!({"ev": "mir", "o": obs::raw(&g2)}));
    for _ in 0..plies {
        let lg = queries(&mut g, out, true)?;
        if walk_depth > 0 && rng.chance(1, 3) {
            walk(&mut g, walk_depth, 4, rng, out)?;
            if rng.chance(1, 3) {
                let lg2 = guard(|| obs::gen(&mut g, true))?;
                emit(out, json!({"ev": "q", "what": "lg", "val": obs::texts(&lg2), "o": obs::raw(&g)}));
            }
        }
        if lg.is_empty() {
            break;
        }
        // --capture N: with N % a capture / promotion if there is one (games that trade down quickly and so cross
        // the endgame threshold by play, through push_history, rather than by import)
        let caps: Vec<Move> = lg.iter().copied().filter(|m| m.is_tactical_move()).collect();
        let m = if !caps.is_empty() && rng.below(100) < capture as usize { caps[rng.below(caps.len())] } else { pick(rng, &lg) };
        let t = m.uci_notation();
        guard(|| g.push_history(m))?;
        emit(out, json!({"ev": "push", "mv": t, "hist": true, "o": obs::raw(&g)}));
        let mt = mirror_move_text(&t);
        let mm = guard(|| Move::from_uci_notation(&mt, &g2))?.ok_or("mirror move unreadable")?;
        guard(|| g2.push_history(mm))?;
        emit(out, json!({"ev": "mir", "o": obs::raw(&g2)}));
        if g.len() > 500 {
            break;
        }
    }
    Ok(())
}

pub fn run_play(args: &Args) {
    let roots = read_lines(args.req("roots"));
    let mut out = open_out(args.req("out"));
    let mut rng = Rng::new(args.num("seed", 1));
    let games = args.num("games", 10) as usize;
    let plies = args.num("plies", 60) as usize;
    let walk_depth = args.num("walk", 2) as u32;
    let capture = args.num("capture", 0) as u64;
    for gi in 0..games {
        let root = roots[(gi + rng.below(roots.len())) % roots.len()].clone();
        if let Err(msg) = one_game(&root, plies, walk_depth, capture, &mut rng, &mut out) {
            emit(&mut out, json!({"ev": "panic", "msg": msg, "root": root}));
        }
    }
    out.flush().unwrap();
}

/// Import each FEN of a list (a TLC-generated family), observe it, and play / take back
/// every unchecked move once.
pub fn run_fens(args: &Args) {
    let fens = read_lines(args.req("fens"));
    let mut out = open_out(args.req("out"));
    let succ_depth = args.num("succ", 1);
    let succ = succ_depth >= 1;
    for fen in fens {
        let r: Result<(), String> = (|| {
            let mut g = match guard(|| Game::new(&fen))? {
                Ok(g) => g,
                Err(e) => {
                    emit(&mut out, json!({"ev": "new", "fen": obs::chars(&fen), "ok": false, "err": format!("{}", e)}));
                    return Ok(());
                }
            };
            emit(&mut out, json!({"ev": "new", "fen": obs::chars(&fen), "ok": true, "o": obs::raw(&g)}));
            let lg = queries(&mut g, &mut out, true)?;
            if succ {
                let ps = guard(|| obs::gen(&mut g, false))?;
                for m in ps {
                    guard(|| g.push(m))?;
                    emit(&mut out, json!({"ev": "push", "mv": m.uci_notation(), "hist": false, "o": obs::raw(&g)}));
                    if succ_depth >= 2 {
                        // the position right after the particular move, as reached by play (not by import): all the
                        // queries, the export and the re-import of the export (legal first moves only: the queries
                        // are judged against positions of the game)
                        if lg.contains(&m) {
                            queries(&mut g, &mut out, true)?;
                        }
                        // one ply deeper: every reply to every move (a move right after a particular move)
                        let replies = guard(|| obs::gen(&mut g, false))?;
                        for r in replies {
                            guard(|| g.push(r))?;
                            emit(&mut out, json!({"ev": "push", "mv": r.uci_notation(), "hist": false, "o": obs::raw(&g)}));
                            guard(|| g.pop(r))?;
                            emit(&mut out, json!({"ev": "pop", "o": obs::raw(&g)}));
                        }
                    }
                    guard(|| g.pop(m))?;
                    emit(&mut out, json!({"ev": "pop", "o": obs::raw(&g)}));
                }
            }
            Ok(())
        })();
        if let Err(msg) = r {
            emit(&mut out, json!({"ev": "panic", "msg": msg, "root": fen}));
        }
    }
    out.flush().unwrap();
}

/// Re-execute the action sequence of a replay file (events: new / push / pop / q / reimp / mir)
/// on the real Game and record a fresh trace for TLC to judge.
pub fn run_replay(args: &Args) {
    let text = std::fs::read_to_string(args.req("script")).unwrap_or_else(|e| {
        eprintln!("TOOL-ERROR cannot read script: {}", e);
        std::process::exit(2)
    });
    let v: Value = serde_json::from_str(&text).unwrap();
    let events = v["events"].as_array().cloned().unwrap_or_default();
    let mut out = open_out(args.req("out"));
    let mut g: Option<Game> = None;
    let mut g2: Option<Game> = None;
    let mut stack: Vec<Move> = vec![];
    let r: Result<(), String> = (|| {
        for e in &events {
            match e["ev"].as_str().unwrap_or("") {
                "new" => {
                    let fen = e["fen"].as_str().unwrap_or("").to_string();
                    stack.clear();
                    match guard(|| Game::new(&fen))? {
                        Ok(ng) => {
                            emit(&mut out, json!({"ev": "new", "fen": obs::chars(&fen), "ok": true, "o": obs::raw(&ng)}));
                            g = Some(ng);
                            g2 = guard(|| Game::new(&mirror_fen(&fen)))?.ok();
                        }
                        Err(err) => {
                            emit(&mut out, json!({"ev": "new", "fen": obs::chars(&fen), "ok": false, "err": format!("{}", err)}));
                            g = None;
                        }
                    }
                }
                "push" => {
                    let game = g.as_mut().ok_or("push without game")?;
                    let t = e["mv"].as_str().unwrap_or("");
                    let hist = e["hist"].as_bool().unwrap_or(false);
                    let ps = guard(|| obs::gen(game, false))?;
                    let m = match ps.iter().find(|m| m.uci_notation() == t) {
                        Some(m) => *m,
                        None => guard(|| Move::from_uci_notation(t, game))?.ok_or("unreadable move")?,
                    };
                    if hist {
                        guard(|| game.push_history(m))?;
                    } else {
                        guard(|| game.push(m))?;
                    }
                    stack.push(m);
                    emit(&mut out, json!({"ev": "push", "mv": t, "hist": hist, "o": obs::raw(game)}));
                    if hist {
                        if let Some(tw) = g2.as_mut() {
                            let mt = mirror_move_text(t);
                            if let Some(mm) = guard(|| Move::from_uci_notation(&mt, tw))? {
                                guard(|| tw.push_history(mm))?;
                            }
                        }
                    }
                }
                "pop" => {
                    let game = g.as_mut().ok_or("pop without game")?;
                    let m = stack.pop().ok_or("pop without push")?;
                    guard(|| game.pop(m))?;
                    emit(&mut out, json!({"ev": "pop", "o": obs::raw(game)}));
                }
                "q" => {
                    let game = g.as_mut().ok_or("query without game")?;
                    let what = e["what"].as_str().unwrap_or("");
                    let val = match what {
                        "lg" => json!(obs::texts(&guard(|| obs::gen(game, true))?)),
                        "ps" => json!(obs::texts(&guard(|| obs::gen(game, false))?)),
                        "fen" => obs::chars(&guard(|| game.fen())?),
                        "dia" => obs::project_display(&guard(|| format!("{}", game))?),
                        "rt" => {
                            let lg = guard(|| obs::gen(game, true))?;
                            let mut rt = vec![];
                            for m in &lg {
                                let t = m.uci_notation();
                                let back = guard(|| Move::from_uci_notation(&t, game))?;
                                rt.push(json!([t, back.map(|b| b == *m).unwrap_or(false)]));
                            }
                            json!(rt)
                        }
                        _ => json!(null),
                    };
                    emit(&mut out, json!({"ev": "q", "what": what, "val": val, "o": obs::raw(game)}));
                }
                "reimp" => {
                    let game = g.as_mut().ok_or("reimp without game")?;
                    let fen = guard(|| game.fen())?;
                    match guard(|| Game::new(&fen))? {
                        Ok(mut n) => {
                            let lg2 = guard(|| obs::gen(&mut n, true))?;
                            emit(&mut out, json!({"ev": "reimp", "ok": true, "o": obs::raw(&n), "lg": obs::texts(&lg2)}));
                        }
                        Err(err) => emit(&mut out, json!({"ev": "reimp", "ok": false, "err": format!("{}", err)})),
                    }
                }
                "mir" => {
                    if let Some(tw) = g2.as_ref() {
                        emit(&mut out, json!({"ev": "mir", "o": obs::raw(tw)}));
                    }
                }
                _ => {}
            }
        }
        Ok(())
    })();
    if let Err(msg) = r {
        emit(&mut out, json!({"ev": "panic", "msg": msg, "root": "replay"}));
    }
    out.flush().unwrap();
}
