//! Text-import drivers.
//! `fenmut`   - for each base FEN: the base itself in its 4/5/6-field forms, every single-character
//!              deletion, and every insertion / replacement at every index from an alphabet of
//!              character classes (exhaustive), or random double edits; each string is imported
//!              with Game::new under catch_unwind and the outcome recorded (C17).  Mode `bases`:
//!              only the base forms, no edits.
//! `variants` - for each base FEN: every single-feature variation of the position (side, each
//!              castling right, each en-passant file, each square's content), imported, with both
//!              hashes recorded (C05).
use crate::chess::Game;
use crate::obs::{self, guard};
use crate::play::{emit, open_out, read_lines, Out};
use crate::rng::Rng;
use crate::Args;
use serde_json::{json, Value};
use std::io::Write;

const ALPHABET: &[&str] = &[
    "K", "Q", "R", "B", "N", "P", "k", "q", "r", "b", "n", "p", "0", "1", "2", "3", "4", "5", "6", "7", "8",
    "9", "/", "-", " ", "w", "W", "x", "a", "h", "i", "A", "e", "é", "š", "𝔸", "\t",
];

fn import_event(out: &mut Out, s: &str, with_moves: bool) {
    let r = guard(|| Game::new(s));
    match r {
        Err(msg) => emit(out, json!({"ev": "new", "fen": obs::chars(s), "ok": false, "panic": true, "err": msg})),
        Ok(Err(e)) => emit(out, json!({"ev": "new", "fen": obs::chars(s), "ok": false, "panic": false, "err": format!("{}", e)})),
        Ok(Ok(mut g)) => {
            let o = obs::raw(&g);
            if with_moves {
                match guard(|| obs::gen(&mut g, true)) {
                    Ok(lg) => emit(out, json!({"ev": "new", "fen": obs::chars(s), "ok": true, "o": o, "lg": obs::texts(&lg)})),
                    Err(msg) => emit(out, json!({"ev": "new", "fen": obs::chars(s), "ok": true, "o": o, "lgpanic": msg})),
                }
            } else {
                emit(out, json!({"ev": "new", "fen": obs::chars(s), "ok": true, "o": o}));
            }
        }
    }
}

fn from_chars(cs: &[char]) -> String {
    cs.iter().collect()
}

pub fn run(args: &Args) {
    match args.cmd.as_str() {
        "variants" => run_variants(args),
        _ => run_fenmut(args),
    }
}

fn run_fenmut(args: &Args) {
    let bases = read_lines(args.req("fens"));
    let mut out = open_out(args.req("out"));
    let mode = args.get("mode").unwrap_or("exhaustive");
    let mut rng = Rng::new(args.num("seed", 1));
    let random_n = args.num("n", 2000) as usize;
    for base in &bases {
        // the base in its 6-, 5- and 4-field forms (must be accepted as the same position)
        let fields: Vec<&str> = base.split(' ').collect();
        import_event(&mut out, base, true);
        if fields.len() >= 5 {
            import_event(&mut out, &fields[..5].join(" "), true);
            import_event(&mut out, &fields[..4].join(" "), true);
        }
        if mode == "bases" {
            continue; // only the well-formed texts themselves (large lists of positions, no edits)
        }
        let cs: Vec<char> = base.chars().collect();
        if mode == "exhaustive" {
            for i in 0..cs.len() {
                let mut d = cs.clone();
                d.remove(i);
                import_event(&mut out, &from_chars(&d), true);
            }
            for a in ALPHABET {
                let ac: Vec<char> = a.chars().collect();
                for i in 0..=cs.len() {
                    let mut d = cs.clone();
                    for (k, c) in ac.iter().enumerate() {
                        d.insert(i + k, *c);
                    }
                    import_event(&mut out, &from_chars(&d), true);
                    if i < cs.len() && cs[i..].iter().take(1).collect::<String>() != **a {
                        let mut r = cs.clone();
                        r.remove(i);
                        for (k, c) in ac.iter().enumerate() {
                            r.insert(i + k, *c);
                        }
                        import_event(&mut out, &from_chars(&r), true);
                    }
                }
            }
            // whole-field replacements the statement names: truncated fields, words
            for (fi, words) in [
                (1usize, vec!["white", "black", "wb", "-", ""]),
                (2, vec!["KQkqK", "kqKQ", "K-", "AHah", "KQkqx", ""]),
                (3, vec!["e", "e33", "3e", "i3", "e9", "e0", "E3", "e4", "--", ""]),
            ] {
                for w in words {
                    let mut f: Vec<String> = fields.iter().map(|s| s.to_string()).collect();
                    if fi < f.len() {
                        f[fi] = w.to_string();
                        import_event(&mut out, &f.join(" "), true);
                    }
                }
            }
        } else {
            for _ in 0..random_n {
                let mut d = cs.clone();
                let edits = 2 + rng.below(2);
                for _ in 0..edits {
                    let a: Vec<char> = ALPHABET[rng.below(ALPHABET.len())].chars().collect();
                    match rng.below(3) {
                        0 if !d.is_empty() => {
                            let i = rng.below(d.len());
                            d.remove(i);
                        }
                        1 if !d.is_empty() => {
                            let i = rng.below(d.len());
                            d.remove(i);
                            for (k, c) in a.iter().enumerate() {
                                d.insert(i + k, *c);
                            }
                        }
                        _ => {
                            let i = rng.below(d.len() + 1);
                            for (k, c) in a.iter().enumerate() {
                                d.insert(i + k, *c);
                            }
                        }
                    }
                }
                import_event(&mut out, &from_chars(&d), true);
            }
        }
    }
    out.flush().unwrap();
}

fn hash_of(s: &str) -> Value {
    match guard(|| Game::new(s)) {
        Ok(Ok(g)) => json!({"ok": true, "h": obs::limbs(g.hash())}),
        Ok(Err(_)) => json!({"ok": false}),
        Err(m) => json!({"ok": false, "panic": m}),
    }
}

fn run_variants(args: &Args) {
    let bases = read_lines(args.req("fens"));
    let mut out = open_out(args.req("out"));
    for base in &bases {
        let f: Vec<String> = base.split(' ').map(|s| s.to_string()).collect();
        if f.len() < 4 {
            continue;
        }
        let hb = hash_of(base);
        let mut variants: Vec<String> = vec![];
        let rest = |a: &str, b: &str, c: &str, d: &str| format!("{} {} {} {} 0 1", a, b, c, d);
        // side
        variants.push(rest(&f[0], if f[1] == "w" { "b" } else { "w" }, &f[2], &f[3]));
        // each castling right toggled
        for r in ['K', 'Q', 'k', 'q'] {
            let mut set: Vec<char> = f[2].chars().filter(|c| *c != '-').collect();
            if set.contains(&r) {
                set.retain(|c| *c != r);
            } else {
                set.push(r);
            }
            let mut o = String::new();
            for c in ['K', 'Q', 'k', 'q'] {
                if set.contains(&c) {
                    o.push(c);
                }
            }
            if o.is_empty() {
                o.push('-');
            }
            variants.push(rest(&f[0], &f[1], &o, &f[3]));
        }
        // each en-passant file (and none)
        let rank = if f[1] == "w" { '6' } else { '3' };
        for file in "abcdefgh".chars() {
            let e = format!("{}{}", file, rank);
            if e != f[3] {
                variants.push(rest(&f[0], &f[1], &f[2], &e));
            }
        }
        if f[3] != "-" {
            variants.push(rest(&f[0], &f[1], &f[2], "-"));
        }
        // each square's content over all 13 values
        let mut cells: Vec<char> = vec![];
        for ch in f[0].chars() {
            if ch == '/' {
                continue;
            }
            if let Some(d) = ch.to_digit(10) {
                for _ in 0..d {
                    cells.push('.');
                }
            } else {
                cells.push(ch);
            }
        }
        if cells.len() == 64 {
            for i in 0..64 {
                for c in ".KQRBNPkqrbnp".chars() {
                    if cells[i] == c {
                        continue;
                    }
                    let mut v = cells.clone();
                    v[i] = c;
                    let mut placement = String::new();
                    for r in 0..8 {
                        let mut run = 0;
                        for k in 0..8 {
                            let x = v[r * 8 + k];
                            if x == '.' {
                                run += 1;
                            } else {
                                if run > 0 {
                                    placement.push_str(&run.to_string());
                                    run = 0;
                                }
                                placement.push(x);
                            }
                        }
                        if run > 0 {
                            placement.push_str(&run.to_string());
                        }
                        if r < 7 {
                            placement.push('/');
                        }
                    }
                    variants.push(rest(&placement, &f[1], &f[2], &f[3]));
                }
            }
        }
        // every combination of castling rights and en-passant file on the same board and side (16 x 9 state
        // bytes): their hashes must be pairwise distinct (a multi-feature difference inside one key class)
        let mut sweep = vec![];
        for rights in 0..16 {
            let mut c = String::new();
            for (bit, ch) in [(1, 'K'), (2, 'Q'), (4, 'k'), (8, 'q')] {
                if rights & bit != 0 {
                    c.push(ch);
                }
            }
            if c.is_empty() {
                c.push('-');
            }
            for ep in 0..9 {
                let e = if ep == 8 { "-".to_string() } else { format!("{}{}", (b'a' + ep as u8) as char, rank) };
                let fen = rest(&f[0], &f[1], &c, &e);
                sweep.push(json!([c, e, hash_of(&fen)]));
            }
        }
        emit(&mut out, json!({"ev": "states", "base": obs::chars(base), "list": sweep}));
        // two-feature variations: the contents of two squares exchanged (every pair of squares holding different
        // things, kings included) - e.g. a white and a black knight changing places
        if cells.len() == 64 {
            let occupied: Vec<usize> = (0..64).filter(|&i| cells[i] != '.').collect();
            for (ai, &a) in occupied.iter().enumerate() {
                for &b in occupied.iter().skip(ai + 1) {
                    if cells[a] == cells[b] {
                        continue;
                    }
                    let mut v = cells.clone();
                    v.swap(a, b);
                    let mut placement = String::new();
                    for r in 0..8 {
                        let mut run = 0;
                        for k in 0..8 {
                            let x = v[r * 8 + k];
                            if x == '.' {
                                run += 1;
                            } else {
                                if run > 0 {
                                    placement.push_str(&run.to_string());
                                    run = 0;
                                }
                                placement.push(x);
                            }
                        }
                        if run > 0 {
                            placement.push_str(&run.to_string());
                        }
                        if r < 7 {
                            placement.push('/');
                        }
                    }
                    variants.push(rest(&placement, &f[1], &f[2], &f[3]));
                }
            }
        }
        for v in variants {
            let hv = hash_of(&v);
            emit(&mut out, json!({"ev": "var", "base": obs::chars(base), "var": obs::chars(&v), "b": hb, "v": hv}));
        }
    }
    out.flush().unwrap();
}
