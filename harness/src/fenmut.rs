use crate::Args;
pub fn run(_args: &Args) {
    eprintln!("TOOL-ERROR not implemented");
    std::process::exit(2);
}
