//! The single projection from implementation state to the abstract state of the
//! specifications, plus panic capture.
use crate::chess::move_struct::Move;
use crate::chess::Game;
use arrayvec::ArrayVec;
use serde_json::{json, Value};
use std::cell::RefCell;
use std::panic::{catch_unwind, AssertUnwindSafe};

thread_local! {
    static LAST_PANIC: RefCell<String> = RefCell::new(String::new());
}

pub fn install_panic_hook() {
    std::panic::set_hook(Box::new(|info| {
        let msg = format!("{}", info);
        LAST_PANIC.with(|p| *p.borrow_mut() = msg);
    }));
}

/// Run engine code; a panic becomes data.
pub fn guard<R>(f: impl FnOnce() -> R) -> Result<R, String> {
    match catch_unwind(AssertUnwindSafe(f)) {
        Ok(r) => Ok(r),
        Err(_) => Err(LAST_PANIC.with(|p| p.borrow().clone())),
    }
}

/// 64-bit value as four 16-bit limbs, most significant first (TLC integers are 32-bit).
pub fn limbs(h: u64) -> [u64; 4] {
    [(h >> 48) & 0xFFFF, (h >> 32) & 0xFFFF, (h >> 16) & 0xFFFF, h & 0xFFFF]
}

/// Raw observation through the snapshot hook: does not go through fen()/Display/get_moves.
pub fn raw(g: &Game) -> Value {
    let s = g.verif_snapshot();
    let board: Vec<String> = s.board.iter().map(|&c| (c as char).to_string()).collect();
    let mut cast = Vec::new();
    if s.white_king_castling {
        cast.push("K");
    }
    if s.white_queen_castling {
        cast.push("Q");
    }
    if s.black_king_castling {
        cast.push("k");
    }
    if s.black_queen_castling {
        cast.push("q");
    }
    let mut sum_scores: i64 = 0;
    let mut xor_hashes: u64 = 0;
    for i in 0..64 {
        sum_scores += s.past_scores[i] as i64;
        xor_hashes ^= s.past_hashes[i];
    }
    json!({
        "b": board,
        "stm": if s.white_to_move { "w" } else { "b" },
        "cast": cast,
        // abstract en-passant file: 0..7, or 8 = none (every reader of the state byte tests `< 8`); the raw nibble is kept
        // for the design-level comparison
        "ep": if (0..8).contains(&s.en_passant) { s.en_passant } else { 8 },
        "epraw": s.en_passant,
        "len": s.len,
        "wk": s.king_squares[0],
        "bk": s.king_squares[1],
        "h": limbs(s.hash),
        "sc": s.score,
        "kt": if s.endgame_king_table { "e" } else { "m" },
        "nrec": s.moves_recorded,
        // per-square caches folded (design-level consistency only)
        "cs": sum_scores,
        "ch": limbs(xor_hashes),
    })
}

pub fn gen(g: &mut Game, checked: bool) -> Vec<Move> {
    let mut mv: ArrayVec<Move, 256> = ArrayVec::new();
    g.get_moves(&mut mv, checked);
    mv.iter().copied().collect()
}

pub fn texts(mv: &[Move]) -> Vec<String> {
    mv.iter().map(|m| m.uci_notation()).collect()
}

pub fn fen_fields(g: &Game) -> Vec<String> {
    g.fen().split(' ').map(|s| s.to_string()).collect()
}

fn glyph(c: char) -> char {
    match c {
        '♔' => 'K',
        '♕' => 'Q',
        '♖' => 'R',
        '♗' => 'B',
        '♘' => 'N',
        '♙' => 'P',
        '♚' => 'k',
        '♛' => 'q',
        '♜' => 'r',
        '♝' => 'b',
        '♞' => 'n',
        '♟' => 'p',
        ' ' => '.',
        _ => '?',
    }
}

/// Parse hex (no fixed width) to limbs; unparsable -> [-1;4]
pub fn hex_limbs(s: &str) -> Value {
    match u64::from_str_radix(s.trim(), 16) {
        Ok(h) if s.trim().chars().all(|c| c.is_ascii_hexdigit() && !c.is_ascii_lowercase()) => {
            json!(limbs(h))
        }
        _ => json!([-1, -1, -1, -1]),
    }
}

/// Project the text of `show` / Display: hash line, fen line fields, record tokens, diagram.
pub fn project_display(text: &str) -> Value {
    let mut hl = json!(null);
    let mut fl: Vec<String> = vec![];
    let mut rec: Vec<String> = vec![];
    let mut nums: Vec<String> = vec![];
    let mut rows: Vec<Value> = vec![];
    let mut files = String::new();
    for line in text.lines() {
        if let Some(r) = line.strip_prefix("Hash: ") {
            hl = hex_limbs(r);
        } else if let Some(r) = line.strip_prefix("Fen: ") {
            fl = r.split(' ').map(|s| s.to_string()).collect();
        } else if let Some(r) = line.strip_prefix("PGN: ") {
            for tok in r.split_ascii_whitespace() {
                if tok.ends_with('.') && tok[..tok.len() - 1].chars().all(|c| c.is_ascii_digit()) {
                    nums.push(tok.to_string());
                } else {
                    rec.push(tok.to_string());
                }
            }
        } else if line.len() > 2
            && line.as_bytes()[0].is_ascii_digit()
            && line[1..].starts_with(" |")
        {
            // "8 |x|x|x|x|x|x|x|x|"
            let label = &line[0..1];
            let cells: Vec<&str> = line[3..].split('|').collect();
            let mut row = String::new();
            for c in cells.iter() {
                if c.is_empty() {
                    continue;
                }
                let mut it = c.chars();
                let ch = it.next().unwrap();
                if it.next().is_some() {
                    row.push('?');
                } else {
                    row.push(glyph(ch));
                }
            }
            rows.push(json!([label, row]));
        } else if line.trim_start().starts_with("a b") {
            files = line.split_ascii_whitespace().collect::<Vec<_>>().join("");
        }
    }
    json!({"hl": hl, "fl": fl, "rec": rec, "nums": nums, "rows": rows, "files": files})
}

/// Dump the compiled score tables (Eval.tla reads them at check time).
pub fn dump_tables() {
    use crate::scoredata as s;
    let v = json!({
        "P": s::PAWN_SCORES.to_vec(),
        "N": s::KNIGHT_SCORES.to_vec(),
        "B": s::BISHOP_SCORES.to_vec(),
        "R": s::ROOK_SCORES.to_vec(),
        "Q": s::QUEEN_SCORES.to_vec(),
        "Kmid": s::KING_SCORES_MIDDLE.to_vec(),
        "Kend": s::KING_SCORES_END.to_vec(),
        "threshold": s::ENDGAME_THRESHOLD,
    });
    println!("{}", v);
}

/// characters of a string as a JSON array of one-character strings
pub fn chars(s: &str) -> Value {
    Value::Array(s.chars().map(|c| Value::String(c.to_string())).collect())
}
