//! Small deterministic PRNG (splitmix64) so traces depend only on VERIF_SEED.
pub struct Rng(pub u64);

impl Rng {
    pub fn new(seed: u64) -> Self {
        Rng(seed.wrapping_mul(0x9E3779B97F4A7C15) ^ 0xD1B54A32D192ED03)
    }
    pub fn next(&mut self) -> u64 {
        self.0 = self.0.wrapping_add(0x9E3779B97F4A7C15);
        let mut z = self.0;
        z = (z ^ (z >> 30)).wrapping_mul(0xBF58476D1CE4E5B9);
        z = (z ^ (z >> 27)).wrapping_mul(0x94D049BB133111EB);
        z ^ (z >> 31)
    }
    pub fn below(&mut self, n: usize) -> usize {
        if n == 0 {
            0
        } else {
            (self.next() % n as u64) as usize
        }
    }
    pub fn chance(&mut self, num: u64, den: u64) -> bool {
        self.next() % den < num
    }
}
