"""Checks of the search layer (C06 C07 C08 C10 C18 C19): scenario construction (table histories,
stop indices), execution on the real search (in-process, poll hook) and judgement by TraceSearch.tla."""
import json
import os
import random
import re
import shutil

import core
import game
import gen

KVK = "8/8/8/4k3/8/8/4K3/8 w - - 0 1"
KPK = "8/8/8/4k3/8/8/4P3/4K3 w - - 0 1"
KRK = "8/8/8/4k3/8/8/8/R5K1 w - - 0 1"
TINY = [KVK, KPK, KRK, "8/8/4k3/8/2p5/8/3P1K2/7R w - - 0 1", "8/8/8/8/k1p4R/8/3P4/3K4 w - - 0 1"]
REPETITION_PREFIX = "g1f3 g8f6 f3g1 f6g8 g1f3".split()


def solver_positions(run, seed, stride, want_m2, tag):
    """TLC as the independent solver: classify the MATES family (K+Q/R v K, rim) into dead roots,
    single-reply roots, mate-in-1 and forced mate-in-2 positions."""
    d = os.path.join(core.BUILD, "fam", tag)
    os.makedirs(d, exist_ok=True)
    cfg = os.path.join(d, "MATES.cfg")
    with open(cfg, "w") as f:
        f.write('SPECIFICATION Spec\nCONSTANTS Fam = "MATES" Stride = %d Off = %d WantM2 = %s\nINVARIANT EmitClass\nCHECK_DEADLOCK FALSE\n'
                % (stride, seed % stride, "TRUE" if want_m2 else "FALSE"))
    res = core.tlc_mc("Families", cfg, workers=14, tag="solver-" + tag, heap="6g")
    if res["violated"]:
        raise core.ToolError("solver run failed: " + str(res["violated"]))
    classes = {}
    finishing = {}     # fen -> {"mate": [moves], "stale": [moves]} (TLC-computed)
    for c, fen, js in re.findall(r'^<<"POS", "(\w+)", "([^"]*)", "(.*)">>$', res["output"], re.M):
        classes.setdefault(c, []).append(fen)
        finishing[fen] = json.loads(core._unescape(js))
    classes["_finishing"] = finishing
    res["output"] = ""
    run.add_mc(res, {"Fam": "MATES", "Stride": stride, "WantM2": want_m2, "classes": {k: len(v) for k, v in classes.items() if k != "_finishing"}})
    for k in classes:
        if k != "_finishing":
            classes[k].sort()
    return classes


def step(fen, pre=(), limit=None, stop=None, fresh=False, watch_ms=6000, mate=0, tag="", child=None):
    d = {"fen": fen, "pre": list(pre), "limit": limit, "stop": stop, "fresh": fresh, "watch_ms": watch_ms, "mate": mate, "tag": tag}
    if child is not None:
        d["child"] = child      # search the previous step's root after its child-th legal move (same table)
    return d


def interior_histories(rnd, positions, n_stops, n_children, limits=(1, 2, 3)):
    """A search stopped at poll N, then - on the same table - a search of one of the root's successors (an interior
    node of the interrupted search): whatever the abort left in the table must not leak into the next answer."""
    hs = []
    for f, p in positions:
        for _ in range(n_stops):
            n = rnd.randrange(0, 600)
            for j in rnd.sample(range(40), n_children):
                hs.append([step(f, p, limit=None, stop=n, tag="interrupted"),
                           step(f, p, limit=rnd.choice(limits), child=j, tag="successor-of-interrupted")])
    return hs


def run_histories(run, vh, prop, histories, judged, label, nchunks=core.NPROC, profile_vh=None, pv=False):
    """Execute the histories on the real search and let TraceSearch.tla judge them."""
    d = os.path.join(game.TRACES, prop)
    os.makedirs(d, exist_ok=True)
    chunks = [histories[i::nchunks] for i in range(nchunks)]
    exe = profile_vh or vh

    def mk(ic):
        i, chunk = ic
        script = os.path.join(d, "%s-%d.json" % (label, i))
        with open(script, "w") as f:
            json.dump({"histories": chunk}, f)
        out = os.path.join(d, "%s-%d.ndjson" % (label, i))
        p = core.sh([exe, "search", "--script", script, "--out", out], check=False, timeout=3600)
        if p.returncode not in (0, 3):
            # the process died (abort / non-unwinding panic): attribute to the last begun step
            with open(out, "a") as f:
                f.write(json.dumps({"ev": "died", "rc": p.returncode, "stderr": p.stderr[-600:]}) + "\n")
        return (out, script, "vh search (%s, %d histories)" % (label, len(chunk)))
    import time
    t0 = time.time()
    jobs = core.pmap(mk, [(i, c) for i, c in enumerate(chunks) if c])
    t1 = time.time()

    def one(job):
        return job, core.tlc_trace(job[0], spec="TraceSearch", env={"PVCHECK": "1" if pv else "0"})
    n_events = 0
    for (out, script, desc), res in core.pmap(one, jobs):
        run.cov["traces_validated_against_impl"] += 1
        run.cov["events_validated"] += res["events"]
        n_events += res["events"]
        hist = json.load(open(script))["histories"]
        for f in res["fails"]:
            if f["p"] == "HARNESS":
                run.notes.append("scenario skipped: %s %s" % (f["w"], json.dumps(f["d"])[:200]))
                continue
            if f["p"] in judged or f["p"] == "PANIC":
                at = (f["d"] or {}).get("at", {})
                h = hist[at["h"]] if isinstance(at, dict) and "h" in at and at["h"] < len(hist) else None
                run.violation(f, {"driver": "search-history", "source": desc, "history": h, "failing_step": at.get("s") if isinstance(at, dict) else None})
    run.cov.setdefault("batch_wall_s", {})[label] = {"drive": round(t1 - t0, 1), "judge": round(time.time() - t1, 1)}
    return jobs, n_events


def read_events(jobs):
    for out, _, _ in jobs:
        with open(out) as f:
            for l in f:
                yield json.loads(l)


def table_histories(rnd, positions, games, depths, n):
    """Histories of <= 4 searches sharing one table: same position at other depths (deeper then
    shallower included), successive positions of one game, other games, aborted searches in between.
    positions: [(fen, prefix)], games: [[(fen, prefix0), (fen, prefix1), ...]] successive states of one game."""
    hs = []
    for fen, pre in positions:
        for da in depths:
            for db in depths:
                hs.append([step(fen, pre, limit=da), step(fen, pre, limit=db)])
    rnd.shuffle(hs)
    hs = hs[:n]
    for g in games:
        for k in range(0, max(1, len(g) - 2), 2):
            seq = g[k:k + 3]
            hs.append([step(f, p, limit=rnd.choice(depths), tag="same-game") for f, p in seq])
    for _ in range(n // 2):
        a, b, c = rnd.choice(positions), rnd.choice(positions), rnd.choice(positions)
        hs.append([step(a[0], a[1], limit=rnd.choice(depths)),
                   step(b[0], b[1], limit=None, stop=rnd.randrange(0, 400)),
                   step(a[0], a[1], limit=rnd.choice(depths)),
                   step(c[0], c[1], limit=rnd.choice(depths))])
    return hs


def game_positions(vh, prop, seed, n_games, plies, every):
    """Successive states (root fen, prefix) of recorded random games (the engine's own legal moves).
    Returns (flat list, list of per-game lists)."""
    d = os.path.join(game.TRACES, prop)
    os.makedirs(d, exist_ok=True)
    out = os.path.join(d, "seedgames.ndjson")
    core.sh([vh, "play", "--roots", os.path.join(core.VERIF, "lib", "roots.txt"), "--seed", str(seed), "--games", str(n_games),
             "--plies", str(plies), "--walk", "0", "--out", out])
    flat, games = [], []
    root, mvs = None, []
    with open(out) as f:
        for l in f:
            if '"ev":"new"' in l:
                e = json.loads(l)
                root, mvs = "".join(e["fen"]), []
                games.append([(root, [])])
                flat.append((root, []))
            elif '"ev":"push"' in l:
                e = json.loads(l)
                if e.get("hist"):
                    mvs.append(e["mv"])
                    if len(mvs) % every == 0:
                        games[-1].append((root, list(mvs)))
                        flat.append((root, list(mvs)))
    os.remove(out)
    return flat, games


def searchctl(run, ngo, liveness, tag):
    """Exhaustive TLC run of the design-level driver model for all table histories of ngo searches."""
    cfg = "mc/MC_SearchCtl_%d.cfg" % ngo
    res = core.tlc_mc("MC_SearchCtl", cfg, workers=12, tag="searchctl-" + tag, coverage=True)
    cov = core.coverage_counts(res["output"])
    if res["violated"]:
        raise core.ToolError("SearchCtl.tla violates %s (design-level model out of date?)\n%s" % (res["violated"], res["output"][-1500:]))
    for a in ("StartGo", "StopNow", "OnlyMove", "RootHit", "RootSearch", "Report", "Finish"):
        if cov.get(a, (0, 0))[0] == 0:
            raise core.ToolError("SearchCtl.tla: action %s never taken (vacuous model run)" % a)
    res["output"] = ""
    run.add_mc(res, {"NGo": ngo, "MaxDepth": 5, "KillerSlots": 5, "Limits": [0, 1, 2, 3], "roots": ["dead", "only", "two", "many", "mating"],
                     "liveness": liveness, "coverage_by_action": {k: v[0] for k, v in cov.items() if k[0].isupper() and not k.startswith("Inv")}})


def scenarios(run, tag):
    """All completed two-search histories of SearchCtl.tla, printed by TLC (spec -> impl)."""
    res = core.tlc_mc("MC_SearchCtl", "mc/MC_SearchCtl_scn.cfg", workers=8, tag="searchctl-scn-" + tag)
    seen = {}
    for m in re.finditer(r'^<<"SCN", "(.*)">>$', res["output"], re.M):
        h = json.loads(core._unescape(m.group(1)))
        key = tuple((s["root"], s["limit"], s["stop"], tuple(s["depths"])) for s in h)
        seen[key] = h
    res["output"] = ""
    run.add_mc(res, {"scenarios": len(seen)})
    return [seen[k] for k in sorted(seen)]


def instantiate(scn, pools, rnd):
    """Concrete steps for one abstract history: root kinds -> positions of that kind (TLC-classified),
    stop classes -> poll indices."""
    chosen = {}
    steps = []
    for s in scn:
        kind = s["root"]
        if kind not in chosen:
            chosen[kind] = rnd.choice(pools[kind])
        fen, pre = chosen[kind]
        lim = s["limit"] if s["limit"] > 0 else None
        st = None
        xd = None
        watch = 6000
        if s["stop"] == "before-first-iteration":
            st = rnd.choice([0, 0, 1])
        elif s["stop"] == "later":
            st = rnd.randrange(2, 3000)
        else:
            if lim is None and kind in ("two", "many"):
                fen, pre = chosen.setdefault("tiny", (KVK, []))
                watch = 15000
            elif lim is not None and kind in ("two", "many", "only", "dead"):
                xd = s["depths"]
        d = step(fen, pre, limit=lim, stop=st, watch_ms=watch, tag=kind + "/" + s["stop"])
        if xd is not None and "tiny" not in chosen:
            d["xd"] = xd
        steps.append(d)
    return steps


def pvs_table(run, shapes, tag):
    """Exhaustive TLC run of the design-level transposition-table model (probe / store / replacement with bound kinds)
    on abstract trees with transpositions: value unchanged by the table, every entry left behind is sound."""
    for shape in shapes:
        r = core.tlc_mc("PvsTable", "mc/PvsTable_%s.cfg" % shape, workers=8, tag="pvstable-%s-%s" % (tag, shape))
        if r["violated"]:
            raise core.ToolError("PvsTable.tla violates %s on shape %s (design-level model)" % (r["violated"], shape))
        r["output"] = ""
        run.add_mc(r, {"shape": shape, "leaf_values": "-1..1", "StrictLower": False})
