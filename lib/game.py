"""Checks of the rules layer (C01 C02 C03 C04 C11 C12a C16 C20): exhaustive TLC exploration of the
reference state machine, TLC-generated position families replayed into the real Game, and
randomized / search-shaped traces of the real Game validated by TraceGame.tla."""
import json
import os
import time
import shutil

import core
import gen

TRACES = os.path.join(core.BUILD, "traces")


def trace_dir(prop):
    d = os.path.join(TRACES, prop)
    shutil.rmtree(d, ignore_errors=True)
    os.makedirs(d, exist_ok=True)
    return d


def extract_segment(trace, line):
    """Events from the last `new` up to event `line` (1-based) - the history that reproduces it."""
    evs = []
    with open(trace) as f:
        for i, l in enumerate(f, 1):
            if i > line:
                break
            evs.append(l)
    start = 0
    for i in range(len(evs) - 1, -1, -1):
        if '"ev":"new"' in evs[i]:
            start = i
            break
    seg = [json.loads(x) for x in evs[start:]]
    actions = []
    for e in seg:
        a = {k: v for k, v in e.items() if k not in ("o", "val", "lg")}
        if e["ev"] == "new":
            a["fen"] = "".join(e["fen"])
        actions.append(a)
    return actions, seg[-1]


def brief(e):
    """an event written out for a reader: text joined, observation reduced to FEN-like fields"""
    r = {}
    for k, v in e.items():
        if k == "fen" and isinstance(v, list):
            r[k] = "".join(v)
        elif k == "val" and isinstance(v, list) and v and isinstance(v[0], str) and len(v[0]) == 1 and e.get("what") == "fen":
            r[k] = "".join(v)
        elif k == "o" and isinstance(v, dict):
            rows = ["".join(v["b"][r8 * 8:(r8 + 1) * 8]) for r8 in range(7, -1, -1)]
            r[k] = {"board": "/".join(rows), "stm": v["stm"], "cast": "".join(v["cast"]), "ep": v["ep"],
                    "len": v["len"], "hash_limbs": v["h"], "score": v["sc"]}
        else:
            r[k] = v
    return r


def bounds_panic(fail):
    """C15 is about out-of-range accesses: a panic of the checked build counts when it is an index / capacity / range /
    unsafe-precondition failure (or the process died), not when it is an arithmetic overflow check."""
    text = json.dumps(fail.get("d") or {})
    if "overflow" in text and not any(k in text for k in ("CAPACITY", "index out of", "out of range", "unsafe precondition", "contains(")):
        return False
    return True


def judge_traces(run, jobs, props, spec="TraceGame", panic_filter=None):
    """jobs: list of (trace path, description).  Validates each with TLC (in parallel) and
    attributes FAIL judgements: those in `props` (plus PANIC) to this run's property."""
    budget = float(os.environ.get("VERIF_BUDGET_S", "2400" if run.tier == "thorough" else "1e9"))

    # the budget counts from the start of the run, but judging always gets at least ten minutes (a check whose model
    # checking and trace recording alone exceed the budget would otherwise judge nothing)
    deadline = max(run.t0 + budget, time.time() + min(600.0, budget))

    def one(job):
        path, desc = job
        if time.time() > deadline:
            return job, None          # wall-clock budget of the run used up: not judged, and counted as such
        return job, core.tlc_trace(path, spec=spec)
    if len(jobs) > 1:
        # a deterministic mix of the trace kinds, so that a run that hits its budget has covered some of each
        import hashlib
        jobs = sorted(jobs, key=lambda j: hashlib.md5(os.path.basename(j[0]).encode()).hexdigest())
    results = core.pmap(one, jobs)
    skipped = [job for job, res in results if res is None]
    if skipped:
        run.cov["traces_not_judged_time_budget"] = run.cov.get("traces_not_judged_time_budget", 0) + len(skipped)
        run.notes.append("wall-clock budget (%d s, VERIF_BUDGET_S) reached: %d of %d recorded traces were not judged" % (budget, len(skipped), len(jobs)))
    results = [(job, res) for job, res in results if res is not None]
    for (path, desc), res in results:
        run.cov["traces_validated_against_impl"] += 1
        run.cov["events_validated"] += res["events"]
        for f in res["fails"]:
            if f["p"] == "DRIFT":
                note = "model-drift spec=%s first-unmatched=%s:%d %s" % (spec, os.path.basename(path), f["line"], f["w"])
                if len(run.cov["model_drift"]) < 5:
                    run.cov["model_drift"].append(note)
                    run.notes.append(note)
                continue
            if f["p"] == "HARNESS":
                raise core.ToolError("harness inconsistency: %s %s" % (f["w"], json.dumps(f["d"])[:500]))
            if f["p"] == "PANIC" and panic_filter is not None and not panic_filter(f):
                note = "arithmetic-overflow panic of the checked build (not a bounds failure): " + json.dumps(f["d"])[:200]
                if len(run.notes) < 6:
                    run.notes.append(note)
                continue
            if f["p"] in props or f["p"] == "PANIC":
                actions, last = extract_segment(path, f["line"])
                run.violation(f, {"driver": "game-trace", "source": desc, "event_index_in_segment": len(actions),
                                  "events": actions, "failing_event": last})
    return results


def count_trace(path):
    """coverage counters measured from a trace: distinct positions, distinct (position, move) pairs"""
    positions = set()
    pairs = set()
    kinds = {}
    prev = None
    with open(path) as f:
        for l in f:
            e = json.loads(l)
            kinds[e["ev"]] = kinds.get(e["ev"], 0) + 1
            o = e.get("o")
            if e["ev"] in ("new", "push", "pop") and o:
                key = "".join(o["b"]) + o["stm"] + "".join(o["cast"]) + str(o["ep"])
                if e["ev"] == "push" and prev:
                    pairs.add((prev, e["mv"]))
                positions.add(key)
                prev = key
    return positions, pairs, kinds


def play_traces(run, vh, prop, n_traces, games, plies, walk, seed, roots_file="roots.txt", capture=0, label="play"):
    d = os.path.join(TRACES, prop)
    os.makedirs(d, exist_ok=True)
    roots = os.path.join(core.VERIF, "lib", roots_file)
    jobs = []

    def mk(i):
        out = os.path.join(d, "%s-%d.ndjson" % (label, i))
        core.sh([vh, "play", "--roots", roots, "--seed", str(seed * 1000 + i), "--games", str(games),
                 "--plies", str(plies), "--walk", str(walk), "--capture", str(capture), "--out", out])
        return (out, "vh play --roots lib/%s --seed %d --games %d --plies %d --walk %d --capture %d" % (roots_file, seed * 1000 + i, games, plies, walk, capture))
    jobs = core.pmap(mk, range(n_traces))
    return jobs


def family_traces(run, vh, prop, fam_files, per_chunk=400, succ=1, label="fam"):
    """fam_files: list of files of FENs (TLC generated). Returns jobs."""
    d = os.path.join(TRACES, prop)
    os.makedirs(d, exist_ok=True)
    fens = []
    for f in fam_files:
        fens += [l.strip() for l in open(f) if l.strip()]
    chunks = [fens[i:i + per_chunk] for i in range(0, len(fens), per_chunk)]

    def mk(ic):
        i, chunk = ic
        lst = os.path.join(d, "%s-%d.fens" % (label, i))
        with open(lst, "w") as f:
            f.write("\n".join(chunk) + "\n")
        out = os.path.join(d, "%s-%d.ndjson" % (label, i))
        core.sh([vh, "fens", "--fens", lst, "--out", out, "--succ", str(succ)])
        return (out, "vh fens (TLC-generated family chunk %d: %s ...)" % (i, chunk[0]))
    return core.pmap(mk, list(enumerate(chunks)))


def mc_chess(run, root_fens, depth, invariants, workers=8, tag="chess"):
    path = gen.gen_roots(root_fens, "roots_%s.json" % tag)
    cfg = os.path.join(core.BUILD, "cfg", "MC_Chess_%s.cfg" % tag)
    os.makedirs(os.path.dirname(cfg), exist_ok=True)
    with open(cfg, "w") as f:
        f.write("SPECIFICATION Spec\nCONSTANT MaxDepth = %d\nINVARIANT %s\nPROPERTY CastMonotone\nCHECK_DEADLOCK FALSE\n"
                % (depth, " ".join(invariants)))
    res = core.tlc_mc("MC_Chess", cfg, workers=workers, env={"ROOTS": path}, tag="mc-" + tag)
    if res["violated"]:
        raise core.ToolError("reference model violates its own theorem %s:\n%s" % (res["violated"], res["output"][-2500:]))
    run.add_mc(res, {"MaxDepth": depth, "roots": root_fens, "invariants": invariants})
    return res


ENGINE_ROOTS = ["8/8/4k3/8/2p5/8/3P1K2/7R w - - 0 1", "r3k2r/8/8/8/8/8/8/R3K2R w KQkq - 0 1", "4k3/P6P/8/8/8/8/p6p/4K3 w - - 0 1",
                "rnbqkbnr/ppp1p1pp/8/3pPp2/8/8/PPPP1PPP/RNBQKBNR w KQkq f6 0 3", "r3k2r/8/8/8/8/8/8/R3K2R b KQkq - 0 1",
                "8/8/1k6/8/2pP4/8/5BK1/8 b - d3 0 1", "r1bqkb1r/pppp1ppp/2n2n2/4p2Q/2B1P3/8/PPPP1PPP/RNB1K1NR w KQkq - 4 4"]


def mc_engine(run, quick, tag):
    """Exhaustive TLC run of the design-level Game model (Engine.tla): incremental hash / score / caches = reference
    functions in every state, push = Chess!Apply, pop restores the saved state."""
    roots = ENGINE_ROOTS[:5] if quick else ENGINE_ROOTS
    path = gen.gen_roots(roots, "roots_engine_%s.json" % tag)
    plies, nest = (1, 2) if quick else (2, 2)
    cfg = os.path.join(core.BUILD, "cfg", "MC_Engine_%s.cfg" % tag)
    os.makedirs(os.path.dirname(cfg), exist_ok=True)
    with open(cfg, "w") as f:
        f.write("SPECIFICATION Spec\nCONSTANTS Plies = %d  Nest = %d  Rescore = TRUE\nINVARIANT InvConsistent InvStack\nVIEW View\nCHECK_DEADLOCK FALSE\n" % (plies, nest))
    res = core.tlc_mc("MC_Engine", cfg, workers=12, env={"ROOTS": path}, tag="engine-" + tag, heap="12g")
    if res["violated"] or "Assert" in res["output"] and "violated" in res["output"]:
        raise core.ToolError("Engine.tla (design-level model) violates %s:\n%s" % (res["violated"], res["output"][-1500:]))
    res["output"] = ""
    run.add_mc(res, {"Plies": plies, "Nest": nest, "roots": roots})
