#!/usr/bin/env python3
"""Generate the data modules the specifications read: ZobristKeys.tla from the repository's
key file (byte for byte) and ScoreTables.tla from the compiled constants dumped by the harness."""
import json, os, subprocess, sys

VERIF = os.path.dirname(os.path.dirname(os.path.abspath(__file__)))
GEN = os.path.join(VERIF, ".build-alt" + os.environ.get("VERIF_ALT_TAG", ""), "gen") if os.environ.get("VERIF_REPO", "/repo") != "/repo" else os.path.join(VERIF, "spec", "gen")

def write_if_changed(path, text):
    if os.path.exists(path) and open(path).read() == text:
        return
    with open(path, "w") as f:
        f.write(text)

def gen_keys(repo="/repo"):
    data = open(os.path.join(repo, "zobrist_bytes.bin"), "rb").read()
    rows = []
    for i in range(0, len(data), 32):
        rows.append(", ".join(str(b) for b in data[i:i + 32]))
    body = ",\n  ".join(rows)
    text = ("---- MODULE ZobristKeys ----\n"
            "\\* generated from %s/zobrist_bytes.bin (%d bytes); do not edit\n"
            "KeyBytes == <<\n  %s >>\n"
            "KeyFileLen == %d\n====\n" % (repo, len(data), body, len(data)))
    write_if_changed(os.path.join(GEN, "ZobristKeys.tla"), text)

def gen_scores(vh):
    out = subprocess.run([vh, "tables"], capture_output=True, text=True, check=True).stdout
    t = json.loads(out)
    parts = ["---- MODULE ScoreTables ----", "\\* generated from the compiled constants of /repo/src/chess/scores.rs; do not edit"]
    for k in ["P", "N", "B", "R", "Q", "Kmid", "Kend"]:
        parts.append("Tab%s == << %s >>" % (k, ", ".join(str(x) for x in t[k])))
    parts.append("EndgameThreshold == %d" % t["threshold"])
    parts.append("====")
    write_if_changed(os.path.join(GEN, "ScoreTables.tla"), "\n".join(parts) + "\n")

if __name__ == "__main__":
    os.makedirs(GEN, exist_ok=True)
    gen_keys()
    gen_scores(sys.argv[1] if len(sys.argv) > 1 else os.path.join(VERIF, ".build/harness/release/vh"))

def read_roots(path=None):
    path = path or os.path.join(VERIF, "lib", "roots.txt")
    return [l.strip() for l in open(path) if l.strip() and not l.startswith("#")]

def gen_roots(fens=None, name="roots.json"):
    """FEN texts as arrays of one-character strings, for specs that parse them (IOEnv.ROOTS)."""
    fens = fens if fens is not None else read_roots()
    path = os.path.join(GEN, name)
    write_if_changed(path, json.dumps([list(f) for f in fens]))
    return path
