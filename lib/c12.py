"""C12 (b): the acceptance relation of `position ... moves` on the real binary, over all strings of move shape."""
import json
import os

import core
import uci

FILES = "abcdefgh"
SQUARES = [f + r for r in "12345678" for f in FILES]
UNIVERSE = [a + b + p for a in SQUARES for b in SQUARES for p in ("", "q", "r", "b", "n")]


def sweep(binary, fen, pre, fields=6):
    """All 20480 strings after `position fen F moves pre...`; returns the pm event.
    fields = 4 / 5 / 6: how many fields of the FEN are sent (all three forms are well-formed)."""
    sent = fen if fen == "startpos" else " ".join(fen.split(" ")[:fields])
    head = ("position startpos" if fen == "startpos" else "position fen " + sent) + " moves " + " ".join(pre)
    script = []
    for s in UNIVERSE:
        script.append("%s %s\nshow\nisready\n" % (head.strip(), s))
    out, err, rc = uci.batch(binary, "".join(script) + "quit\n", timeout=900)
    if rc != 0 or "panicked" in err:
        return {"ev": "panic", "msg": "binary died during the move-string sweep: rc=%s %s" % (rc, err[-400:]), "root": fen}
    chunks = out.split("readyok\n")
    if len(chunks) != len(UNIVERSE) + 1:
        raise core.ToolError("move sweep: %d chunks for %d strings" % (len(chunks), len(UNIVERSE)))
    acc = []
    rej = {}
    cache = {}
    for s, ch in zip(UNIVERSE, chunks):
        # the chunk is: optional "error: ..." line(s), then the show output (or its error)
        first, _, rest = ch.partition("\n")
        is_err = first.startswith("error")          # whatever its wording
        body = rest if is_err else ch
        x = cache.get(body)
        if x is None:
            lines = body.split("\n")
            shown = uci.parse_show(lines) if any(l.startswith("Fen: ") for l in lines) else {"fl": [], "rows": []}
            x = {"fl": shown["fl"][:4], "rows": shown["rows"]}
            cache[body] = x
        if is_err:
            rej[json.dumps(x)] = x
        else:
            acc.append([s, x])
    # an engine that accepts thousands of strings is wrong already; the event carries the count and a sample
    return {"ev": "pm", "fen": ["startpos"] if fen == "startpos" else list(fen), "pre": list(pre), "n": len(UNIVERSE),
            "acc_total": len(acc), "acc": acc[:400], "rej": list(rej.values())}


def fen_sweep(binary, strings):
    """`position fen <s>`, `show`, `isready` for each string on the real binary -> ufen events (C17 over UCI).
    Strings containing a line break cannot be sent as one command and are skipped."""
    strings = [x for x in strings if "\n" not in x and "\r" not in x]
    script = "".join("position fen %s\nshow\nisready\n" % x for x in strings) + "quit\n"
    try:
        out, err, rc = uci.batch(binary, script, timeout=600)
    except Exception as ex:           # timeout: the engine wedged
        return [{"ev": "ufen", "fen": list(strings[0]) if strings else [], "acc": False, "fl": [], "died": True}]
    chunks = out.split("readyok\n")
    evs = []
    for i, x in enumerate(strings):
        if i >= len(chunks) - 1:
            evs.append({"ev": "ufen", "fen": list(x), "acc": False, "fl": [], "died": True})   # the process died here
            break
        lines = chunks[i].split("\n")
        fl = []
        for l in lines:
            if l.startswith("Fen: "):
                fl = l[5:].split(" ")[:4]
        evs.append({"ev": "ufen", "fen": list(x), "acc": bool(fl), "fl": fl, "died": False})
    return evs


def divide(binary, fen, depth):
    """`rustybait perft <depth> "<fen>"` -> divide event (C01 through the command line)"""
    import subprocess
    try:
        p = subprocess.run([binary, "perft", str(depth), fen], capture_output=True, text=True, timeout=300)
    except subprocess.TimeoutExpired:
        return {"ev": "divide", "fen": list(fen), "d": depth, "lines": [], "total": -1, "died": True}
    lines = []
    total = -1
    for l in p.stdout.splitlines():
        if ": " in l:
            a, b = l.split(": ", 1)
            if b.strip().isdigit():
                lines.append([a.strip(), int(b)])
        elif l.strip().isdigit():
            total = int(l.strip())
    return {"ev": "divide", "fen": list(fen), "d": depth, "lines": lines, "total": total, "died": p.returncode != 0}


def selfplay(binary, polls, timeout=240):
    """`rustybait auto` with every search cut after `polls` node polls (hook) -> selfplay event with the FEN of every ply"""
    import subprocess
    env = dict(os.environ, VERIF_STOP_AFTER=str(polls))
    try:
        p = subprocess.run([binary, "auto", "100000000"], capture_output=True, text=True, timeout=timeout, env=env)
        out, err, rc, hung = p.stdout, p.stderr, p.returncode, False
    except subprocess.TimeoutExpired as ex:
        out = ex.stdout.decode(errors="replace") if isinstance(ex.stdout, bytes) else (ex.stdout or "")
        err = ex.stderr.decode(errors="replace") if isinstance(ex.stderr, bytes) else (ex.stderr or "")
        rc, hung = -999, True
    fens = [l[5:] for l in out.splitlines() if l.startswith("Fen: ")]
    return {"ev": "selfplay", "polls": polls, "rc": rc, "hung": hung, "plies": max(0, len(fens) - 1), "fens": [list(f) for f in fens],
            "panic": ("panicked" in err) or rc != 0, "msg": " | ".join(l for l in err.splitlines() if "panicked" in l or "assert" in l)[:300]}
