"""Shared machinery of the checks: building, TLC invocation, trace validation, evidence,
known findings, replay files, exit codes.

Exit codes: 0 property held on everything explored (KNOWN-FINDING lines possible),
1 with `VIOLATION property=<id> replay=<path>` lines, 2 tool error (never a verdict)."""
import concurrent.futures as cf
import glob
import json
import os
import re
import shutil
import subprocess
import sys
import time

VERIF = os.path.dirname(os.path.dirname(os.path.abspath(__file__)))
# VERIF_REPO (development only): evaluate a scratch copy of the repository (seeded changes) without touching /repo.
# Everything such a run writes goes under .build-alt, including its evidence and replay files.
REPO = os.environ.get("VERIF_REPO", "/repo")
ALT = REPO != "/repo"
SPEC = os.path.join(VERIF, "spec")
BUILD = os.path.join(VERIF, ".build-alt" + os.environ.get("VERIF_ALT_TAG", "") if ALT else ".build")
GEN = os.path.join(BUILD, "gen") if ALT else os.path.join(SPEC, "gen")
HARNESS = os.path.join(VERIF, "harness")
OUT = BUILD if ALT else VERIF          # where evidence/ and replays/ go
CP = "/opt/veriftools/tla/tla2tools.jar:/opt/veriftools/tla/CommunityModules-deps.jar"
GUARD = "daniel729_chess_verif"
NPROC = 14


class ToolError(Exception):
    pass


def tool_error(msg):
    print("TOOL-ERROR " + msg, flush=True)
    sys.exit(2)


def sh(cmd, cwd=None, env=None, timeout=None, check=True):
    e = dict(os.environ)
    if env:
        e.update(env)
    p = subprocess.run(cmd, cwd=cwd, env=e, capture_output=True, text=True, timeout=timeout)
    if check and p.returncode != 0:
        raise ToolError("command failed (%d): %s\n%s\n%s" % (p.returncode, " ".join(cmd), p.stdout[-3000:], p.stderr[-3000:]))
    return p


# ------------------------------------------------------------------ building

def cargo_env():
    return {"CARGO_NET_OFFLINE": "true"}


def build_harness(profile="release"):
    """(Re)build the harness from /repo's current working tree (sources included by path)."""
    args = ["cargo", "build", "--offline", "--profile", profile]
    hdir = HARNESS
    if ALT:
        # a copy of the harness whose #[path] attributes point at the scratch repository
        hdir = os.path.join(BUILD, "hsrc", "harness")
        os.makedirs(os.path.join(hdir, "src"), exist_ok=True)
        os.makedirs(os.path.join(hdir, ".cargo"), exist_ok=True)
        for f in ["Cargo.toml", "Cargo.lock", "build.rs"] + ["src/" + x for x in os.listdir(os.path.join(HARNESS, "src"))]:
            text = open(os.path.join(HARNESS, f)).read().replace('"/repo/src/', '"%s/src/' % REPO)
            dst = os.path.join(hdir, f)
            if not os.path.exists(dst) or open(dst).read() != text:
                open(dst, "w").write(text)
        cfgt = open(os.path.join(HARNESS, ".cargo", "config.toml")).read().replace('"../.build/harness"', '"%s"' % os.path.join(BUILD, "harness"))
        open(os.path.join(hdir, ".cargo", "config.toml"), "w").write(cfgt)
    p = sh(args, cwd=hdir, env=cargo_env(), check=False)
    if p.returncode != 0:
        # The window-search hook sits under its own value of the guard: if only that hook no longer compiles against the
        # tree (the signature of the private search function changed), build without it; window cases are then skipped
        # with a visible note (C09) and every other driver keeps working.
        env = cargo_env()
        env["RUSTFLAGS"] = '--cfg %s --check-cfg cfg(%s,values(none(),"window"))' % (GUARD, GUARD)
        p2 = sh(args, cwd=hdir, env=env, check=False)
        if p2.returncode != 0:
            raise ToolError("harness build failed:\n" + p.stderr[-4000:])
    d = "release" if profile == "release" else profile
    return os.path.join(BUILD, "harness", d, "vh")


def build_bin(checked=False):
    """Build the real binary from /repo/Cargo.toml with the hooks on.
    checked=True: optimised build with debug assertions + overflow checks."""
    tdir = os.path.join(BUILD, "bin-checked" if checked else "bin")
    args = ["cargo", "build", "--offline", "--release", "--manifest-path", os.path.join(REPO, "Cargo.toml"),
            "--target-dir", tdir]
    if checked:
        args += ["--config", "profile.release.debug-assertions=true", "--config", "profile.release.overflow-checks=true",
                 "--config", "profile.release.debug=false"]
    else:
        args += ["--config", "profile.release.debug=false"]
    env = cargo_env()
    env["RUSTFLAGS"] = "--cfg %s" % GUARD
    p = sh(args, cwd=REPO, env=env, check=False)
    if p.returncode != 0:
        raise ToolError("binary build failed:\n" + p.stderr[-4000:])
    return os.path.join(tdir, "release", "rustybait")


def gen_specs(vh):
    os.makedirs(GEN, exist_ok=True)
    sys.path.insert(0, os.path.join(VERIF, "lib"))
    import gen
    gen.gen_keys(REPO)
    if vh is not None:
        gen.gen_scores(vh)
    gen.gen_roots()


# ------------------------------------------------------------------ TLC

def java_cmd(heap, extra_props=()):
    return ["java", "-Xss1g", "-Xmx" + heap, "-XX:+UseSerialGC",
            "-Dtlc2.tool.queue.IStateQueue=StateDeque",
            "-DTLA-Library=%s:%s" % (GEN, SPEC)] + list(extra_props) + ["-cp", CP, "tlc2.TLC", "-nowarning"]


def java_cmd_mc(heap):
    # exhaustive runs: parallel collector, default (breadth-first) queue
    return ["java", "-Xss256m", "-Xmx" + heap, "-XX:+UseParallelGC",
            "-DTLA-Library=%s:%s" % (GEN, SPEC), "-cp", CP, "tlc2.TLC", "-nowarning"]


FAIL_RE = re.compile(r'^<<"FAIL", (\d+), "(.*)">>$')


def _unescape(s):
    try:
        return json.loads('"' + s + '"', strict=False)
    except Exception:
        return s.replace('\\"', '"').replace("\\\\", "\\")


def tlc_trace(trace, spec="TraceGame", tag=None, env=None, timeout=3600, heap="2g"):
    """Validate one recorded trace against a trace specification.
    Returns dict(ok, events, fails=[{line,p,w,d}], wall)."""
    tag = tag or os.path.basename(trace)
    meta = os.path.join(BUILD, "tlc", tag)
    shutil.rmtree(meta, ignore_errors=True)
    os.makedirs(meta, exist_ok=True)
    e = {"TRACE": trace}
    if env:
        e.update(env)
    cmd = java_cmd(heap) + ["-workers", "1", "-metadir", meta, "-cleanup", "-noGenerateSpecTE",
                            "-config", spec + ".cfg", spec + ".tla"]
    t0 = time.time()
    try:
        p = sh(cmd, cwd=SPEC, env=e, timeout=timeout, check=False)
    except subprocess.TimeoutExpired:
        raise ToolError("TLC timed out validating " + trace)
    wall = time.time() - t0
    shutil.rmtree(meta, ignore_errors=True)
    fails = []
    ok = False
    events = 0
    for line in p.stdout.splitlines():
        m = FAIL_RE.match(line)
        if m:
            try:
                recs = json.loads(_unescape(m.group(2)), strict=False)
            except Exception as ex:
                raise ToolError("cannot parse FAIL line: %s (%s)" % (line[:300], ex))
            for r in recs:
                fails.append({"line": int(m.group(1)), "p": r.get("p"), "w": r.get("w"), "d": r.get("d")})
        elif line.startswith('<<"TRACE-OK"'):
            ok = True
            events = int(re.findall(r"\d+", line)[0])
    if not ok:
        raise ToolError("trace specification %s did not consume trace %s:\n%s" % (spec, trace, p.stdout[-3000:] + p.stderr[-2000:]))
    return {"ok": ok, "events": events, "fails": fails, "wall": wall}


STATS_RE = re.compile(r"(\d[\d,]*) states generated, (\d[\d,]*) distinct states found, (\d[\d,]*) states left on queue")
DEPTH_RE = re.compile(r"The depth of the complete state graph search is (\d+)")


def tlc_mc(module, cfg, workers=8, env=None, heap="8g", timeout=7200, extra=(), tag=None, coverage=False, deque=False):
    """Run an exhaustive (or -simulate) TLC configuration.  Returns stats and the output."""
    tag = tag or (module + "-" + os.path.basename(cfg))
    meta = os.path.join(BUILD, "tlc", tag)
    shutil.rmtree(meta, ignore_errors=True)
    os.makedirs(meta, exist_ok=True)
    base = java_cmd(heap) if deque else java_cmd_mc(heap)
    cmd = base + ["-workers", str(workers), "-metadir", meta, "-cleanup", "-noGenerateSpecTE", "-config", cfg]
    if coverage:
        cmd += ["-coverage", "1"]
    cmd += list(extra) + [module + ".tla"]
    t0 = time.time()
    try:
        p = sh(cmd, cwd=SPEC, env=env, timeout=timeout, check=False)
    except subprocess.TimeoutExpired:
        raise ToolError("TLC timed out on %s/%s" % (module, cfg))
    wall = time.time() - t0
    shutil.rmtree(meta, ignore_errors=True)
    out = p.stdout
    res = {"module": module, "cfg": cfg, "wall": round(wall, 1), "generated": 0, "distinct": 0, "depth": 0,
           "ok": False, "violated": None, "output": out, "rc": p.returncode}
    ms = STATS_RE.findall(out)
    if ms:
        g, d, q = ms[-1]
        res["generated"] = int(g.replace(",", ""))
        res["distinct"] = int(d.replace(",", ""))
    md = DEPTH_RE.search(out)
    if md:
        res["depth"] = int(md.group(1))
    if "Model checking completed. No error has been found." in out or "Finished computing" in out and p.returncode == 0:
        res["ok"] = p.returncode == 0
    mv = re.search(r"Error: Invariant (\S+) is violated", out)
    if mv:
        res["violated"] = mv.group(1)
    mv = re.search(r"Error: Action property (\S+) is violated", out)
    if mv:
        res["violated"] = mv.group(1)
    mv = re.search(r"Error: Temporal propert(y \S+ was|ies were) violated", out)
    if mv:
        res["violated"] = "temporal"
    if not res["ok"] and res["violated"] is None:
        raise ToolError("TLC failed on %s/%s (rc %d):\n%s" % (module, cfg, p.returncode, out[-3000:] + p.stderr[-2000:]))
    return res


def coverage_counts(output):
    """action name -> (distinct, generated) from a -coverage run"""
    res = {}
    for m in re.finditer(r"<(\w+) line \d+, col \d+ to line \d+, col \d+ of module \w+>: (\d+):(\d+)", output):
        res[m.group(1)] = (int(m.group(2)), int(m.group(3)))
    return res


def pmap(fn, items, n=NPROC):
    with cf.ThreadPoolExecutor(max_workers=n) as ex:
        return list(ex.map(fn, items))


# ------------------------------------------------------------------ known findings

def load_known():
    p = os.path.join(VERIF, "known_findings.json")
    if not os.path.exists(p):
        return []
    return json.load(open(p)).get("findings", [])


def match_known(prop, fail, known):
    """A failure is a known finding only if an entry with status 'known' for the same
    property matches its structural signature exactly (all signature keys equal)."""
    for k in known:
        if k.get("status") != "known" or k.get("property") != prop:
            continue
        sig = k.get("signature", {})
        if sig.get("w") is not None and sig["w"] != fail.get("w"):
            continue
        d = fail.get("d") or {}
        if all(d.get(key) == val for key, val in sig.get("d", {}).items()):
            return k
    return None


# ------------------------------------------------------------------ evidence / verdict

class Run:
    def __init__(self, prop, tier, seed, level="model_checking"):
        self.prop = prop
        self.tier = tier
        self.seed = seed
        self.level = level
        self.t0 = time.time()
        self.cov = {"states": 0, "transitions": 0, "traces_validated_against_impl": 0, "samples": [],
                    "evaluations": 0, "distinct_nontrivial": 0, "rule": "", "model_runs": [], "events_validated": 0,
                    "model_drift": [], "exhaustive": False}
        self.assumptions = []
        self.violations = []      # (fail record, replay path)
        self.known_hits = []
        self.notes = []
        self.nreplay = 0
        self.seen = set()
        for old in glob.glob(os.path.join(OUT, "replays", prop + "-*.json")):
            os.remove(old)

    def add_mc(self, res, constants=None):
        self.cov["states"] += res["distinct"]
        self.cov["transitions"] += res["generated"]
        self.cov["model_runs"].append({"module": res["module"], "cfg": os.path.basename(res["cfg"]),
                                       "states_generated": res["generated"], "distinct": res["distinct"],
                                       "depth": res["depth"], "wall_s": res["wall"], "constants": constants or {}})

    def sample(self, s, cap=6):
        if len(self.cov["samples"]) < cap:
            self.cov["samples"].append(s)

    def replay_path(self):
        self.nreplay += 1
        d = os.path.join(OUT, "replays")
        os.makedirs(d, exist_ok=True)
        return os.path.join(d, "%s-%d.json" % (self.prop, self.nreplay))

    def violation(self, fail, replay_obj):
        """Record one judged failure of this property (or a known finding)."""
        key = json.dumps([fail.get("w"), fail.get("d")], sort_keys=True, ensure_ascii=False)
        if key in self.seen:
            return
        self.seen.add(key)
        k = match_known(self.prop, fail, load_known())
        if k is not None:
            if k["line"] not in self.known_hits:
                self.known_hits.append(k["line"])
            return
        if len(self.violations) >= 5:
            self.violations.append((fail, None))
            return
        path = self.replay_path()
        replay_obj = dict(replay_obj)
        replay_obj.update({"property": self.prop, "what": fail.get("w"), "detail": fail.get("d"),
                           "rerun": "./check %s --replay %s" % (self.prop, os.path.relpath(path, VERIF))})
        with open(path, "w") as f:
            json.dump(replay_obj, f, indent=1, ensure_ascii=False)
        self.violations.append((fail, path))

    def finish(self):
        wall = time.time() - self.t0
        ev = {"property_id": self.prop, "tier": self.tier, "seed": self.seed, "level": self.level,
              "coverage": self.cov, "assumptions": self.assumptions, "wall_s": round(wall, 1),
              "violations": len(self.violations), "known_findings": self.known_hits, "notes": self.notes}
        os.makedirs(os.path.join(OUT, "evidence"), exist_ok=True)
        with open(os.path.join(OUT, "evidence", self.prop + ".json"), "w") as f:
            json.dump(ev, f, indent=1, ensure_ascii=False)
        for n in self.notes:
            print("NOTE " + n)
        for line in self.known_hits:
            print(line)
        shown = 0
        for fail, path in self.violations:
            if path is not None:
                print("VIOLATION property=%s replay=%s" % (self.prop, path))
                print("  " + json.dumps({"w": fail.get("w"), "d": fail.get("d")}, ensure_ascii=False)[:600])
                shown += 1
        print("%s %s tier=%s seed=%d states=%d traces=%d events=%d evaluations=%d violations=%d wall=%.0fs" % (
            "FAILED" if self.violations else "OK", self.prop, self.tier, self.seed, self.cov["states"],
            self.cov["traces_validated_against_impl"], self.cov["events_validated"], self.cov["evaluations"],
            len(self.violations), wall), flush=True)
        sys.exit(1 if self.violations else 0)
