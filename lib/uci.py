"""Driving the real binary over UCI: a batch runner (script in, transcript out) and an interactive
session with ordered, sequence-numbered stdout/stderr capture.  Nothing here judges a property;
transcripts are projected to events for the TLA+ trace specifications."""
import os
import queue
import re
import subprocess
import threading
import time

GLYPH = {"♔": "K", "♕": "Q", "♖": "R", "♗": "B", "♘": "N", "♙": "P",
         "♚": "k", "♛": "q", "♜": "r", "♝": "b", "♞": "n", "♟": "p", " ": "."}


def batch(binary, script, timeout=600, env=None):
    """Feed a whole script to the binary; returns (stdout, stderr, returncode)."""
    e = dict(os.environ)
    if env:
        e.update(env)
    p = subprocess.run([binary], input=script, capture_output=True, text=True, timeout=timeout, env=e)
    return p.stdout, p.stderr, p.returncode


def parse_show(lines):
    """Project the lines of one `show` output: hash limbs, fen fields, record tokens, diagram rows."""
    out = {"hl": None, "fl": [], "rec": [], "rows": [], "files": ""}
    for line in lines:
        if line.startswith("Hash: "):
            h = line[6:].strip()
            try:
                v = int(h, 16)
                ok = re.fullmatch(r"[0-9A-F]+", h) is not None
            except ValueError:
                ok = False
            out["hl"] = [(v >> 48) & 0xFFFF, (v >> 32) & 0xFFFF, (v >> 16) & 0xFFFF, v & 0xFFFF] if ok else [-1, -1, -1, -1]
        elif line.startswith("Fen: "):
            out["fl"] = line[5:].split(" ")
        elif line.startswith("PGN: "):
            out["rec"] = [t for t in line[5:].split() if not re.fullmatch(r"\d+\.", t)]
        elif re.match(r"^[1-8] \|", line):
            cells = [c for c in line[3:].split("|") if c != ""]
            row = "".join(GLYPH.get(c, "?") if len(c) == 1 else "?" for c in cells)
            out["rows"].append([line[0], row])
        elif line.strip().startswith("a b"):
            out["files"] = "".join(line.split())
    return out


class Session:
    """An interactive UCI session. Every received line gets a per-stream sequence number and a
    driver-clock timestamp; ordering across the two streams is never used for verdicts."""

    def __init__(self, binary, env=None):
        e = dict(os.environ)
        if env:
            e.update(env)
        self.p = subprocess.Popen([binary], stdin=subprocess.PIPE, stdout=subprocess.PIPE, stderr=subprocess.PIPE,
                                  text=True, bufsize=1, env=e)
        self.t0 = time.time()
        self.out = []        # (t, line)
        self.err = []
        self.log = []        # transcript in driver order: ("send"|"recv"|"err", t, text)
        self.q = queue.Queue()
        self.lock = threading.Lock()
        self.cv = threading.Condition(self.lock)
        self.best_count = 0        # maintained by the reader thread: no rescanning of the transcript
        self.ready_count = 0
        self.eof = False
        self.threads = [threading.Thread(target=self._reader, args=(self.p.stdout, "recv"), daemon=True),
                        threading.Thread(target=self._reader, args=(self.p.stderr, "err"), daemon=True)]
        for t in self.threads:
            t.start()

    def _reader(self, stream, kind):
        for line in stream:
            line = line.rstrip("\n")
            t = time.time() - self.t0
            with self.cv:
                (self.out if kind == "recv" else self.err).append((t, line))
                self.log.append((kind, t, line))
                if kind == "recv":
                    if line.startswith("bestmove"):
                        self.best_count += 1
                    elif line == "readyok":
                        self.ready_count += 1
                    self.cv.notify_all()
            if kind == "recv":
                self.q.put((t, line))
        if kind == "recv":
            with self.cv:
                self.eof = True
                self.cv.notify_all()
            self.q.put((time.time() - self.t0, None))

    def send(self, line):
        t = time.time() - self.t0
        with self.lock:
            self.log.append(("send", t, line))
        try:
            self.p.stdin.write(line + "\n")
            self.p.stdin.flush()
            return True
        except (BrokenPipeError, OSError):
            return False

    def wait_line(self, pred, timeout):
        """Wait for a stdout line satisfying pred; returns (t, line) or None on timeout / EOF."""
        end = time.time() + timeout
        while True:
            left = end - time.time()
            if left <= 0:
                return None
            try:
                t, line = self.q.get(timeout=left)
            except queue.Empty:
                return None
            if line is None:
                return None
            if pred(line):
                return (t, line)

    def wait_until(self, pred, timeout):
        """Block (no polling) until pred() holds, the stream ends, or the timeout expires; pred is evaluated under the lock."""
        end = time.time() + timeout
        with self.cv:
            while not pred():
                if self.eof:
                    return pred()
                left = end - time.time()
                if left <= 0:
                    return False
                self.cv.wait(left)
            return True

    def drain(self):
        while True:
            try:
                self.q.get_nowait()
            except queue.Empty:
                return

    def close(self, timeout=5.0):
        """Close stdin (if quit was not sent) and wait; returns exit status or None if it had to be killed."""
        try:
            self.p.stdin.close()
        except Exception:
            pass
        try:
            rc = self.p.wait(timeout=timeout)
        except subprocess.TimeoutExpired:
            self.p.kill()
            self.p.wait()
            rc = None
        for t in self.threads:
            t.join(timeout=2)
        return rc

    def wait_exit(self, timeout):
        try:
            return self.p.wait(timeout=timeout)
        except subprocess.TimeoutExpired:
            return None

    def alive(self):
        return self.p.poll() is None
