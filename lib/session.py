"""UCI sessions against the real binary, projected to events for TraceSession.tla.

A session script is a list of steps:
  {"send": "<uci command>"}            send; followed by an `isready` fence unless "nofence": true
  {"waitbest": seconds}                wait until a bestmove line has been received (or timeout)
  {"sleep": seconds}
  {"quit": true}                       send quit and wait for the process to exit
The fence delimits main-thread output per command (errors, readyok, show, info time are all printed
by the stdin loop in command order), so refusals are attributed exactly; search-thread lines
(info depth/score/pv, bestmove) are attributed by order: searches are serialised by the engine.
No verdict depends on comparing clocks across threads; the only timing judgements use the driver's
own clock with a wide tolerance."""
import re
import time

import uci

READY_TIMEOUT = 15.0
INT_MAX = 2147483647


def clamp(n):
    return n if n <= INT_MAX else INT_MAX


def parse_go(cmd):
    toks = cmd.split()
    p = {}
    i = 1
    while i < len(toks):
        if toks[i] in ("wtime", "btime", "winc", "binc", "depth", "movetime") and i + 1 < len(toks):
            try:
                p[toks[i]] = int(toks[i + 1])
            except ValueError:
                pass
            i += 2
        elif toks[i] == "infinite":
            p["infinite"] = 1
            i += 1
        else:
            i += 1
    return p


def parse_position(cmd):
    """-> (fen or 'startpos', [moves]) or None"""
    toks = cmd.split()
    if len(toks) < 2:
        return None
    if toks[1] == "startpos":
        mv = toks[3:] if len(toks) > 2 and toks[2] == "moves" else []
        return ("startpos", mv)
    if toks[1] == "fen":
        rest = toks[2:]
        if "moves" in rest:
            k = rest.index("moves")
            return (" ".join(rest[:k]), rest[k + 1:])
        return (" ".join(rest), [])
    return None


def parse_info(line):
    """Fields of one UCI `info` line that the monitors use: depth, score (cp, or mate mapped into the mate range), pv
    (always the last field).  Unknown fields are skipped; a truncated line yields what was complete."""
    toks = line.split()
    out = {}
    i = 1
    while i < len(toks):
        t = toks[i]
        if t == "pv":
            out["pv"] = toks[i + 1:]
            break
        if t == "string":
            break
        if t == "depth":
            try:
                out["depth"] = int(toks[i + 1])
            except (ValueError, IndexError):
                out["depth"] = -1
            i += 2
            continue
        if t == "score" and i + 2 < len(toks) and toks[i + 1] in ("cp", "mate"):
            try:
                v = int(toks[i + 2])
                out["cp"] = v if toks[i + 1] == "cp" else (32000 - abs(v)) * (1 if v > 0 else -1)
            except ValueError:
                pass
            i += 3
            continue
        i += 1
    return out


def run(binary, steps, env=None, settle=3.0, final_stop=True):
    """Run one session; returns the list of events (dicts)."""
    s = uci.Session(binary, env=env)
    events = []
    consumed = 0          # stdout lines already turned into events

    def pump():
        """turn newly received stdout lines into events (in pipe order)"""
        nonlocal consumed
        with s.lock:
            lines = list(s.out[consumed:])
            consumed = len(s.out)
        for t, line in lines:
            if line.startswith("bestmove"):
                toks = line.split()
                events.append({"ev": "best", "move": toks[1] if len(toks) > 1 else "", "t": int(t * 1000)})
            elif line.startswith("info"):
                # any standard UCI info line: the engine's one-field-per-line form or several fields on one line
                f = parse_info(line)
                if "depth" in f:
                    events.append({"ev": "depth", "d": f["depth"]})
                if "cp" in f:
                    events.append({"ev": "score", "cp": f["cp"]})
                if "pv" in f:
                    events.append({"ev": "pv", "line": f["pv"]})
        return lines

    def fence(target=None):
        """isready -> readyok; returns (answered, []).  `target` is given when the command just sent was itself an
        isready (its own readyok is the fence; a second isready would leave a stray readyok behind and shift every
        later fence by one).  An unanswered isready is probed a second time before the engine is declared wedged."""
        for attempt in (0, 1):
            if target is None or attempt == 1:
                with s.lock:
                    target = s.ready_count + 1
                if not s.send("isready"):
                    return False, []
            if s.wait_until(lambda: s.ready_count >= target, READY_TIMEOUT):
                return True, []
            if not s.alive():
                return False, []
        return False, []

    accepted_gos = [0]

    def count_best():
        with s.lock:
            return s.best_count

    sent_quit = False
    wedged = False
    for st in steps:
        if "send" in st:
            cmd = st["send"]
            kind = cmd.split()[0] if cmd.split() else ""
            before_best = count_best()
            pump()
            ev = {"ev": "cmd", "text": cmd, "kind": kind, "t": int((time.time() - s.t0) * 1000), "afterbest": bool(st.get("afterbest", False)),
                  "best_seen": before_best}
            with s.lock:
                cmd_mark = len(s.out)
                own_target = s.ready_count + 1 if kind == "isready" else None
            ok = s.send(cmd)
            ev["delivered"] = ok
            ev["refused"] = False
            ev["error"] = ""
            if kind == "go":
                ev["params"] = dict({k: clamp(v) for k, v in parse_go(cmd).items()}, go=1)
            if kind == "position":
                pp = parse_position(cmd)
                if pp:
                    ev["fen"] = ["startpos"] if pp[0] == "startpos" else list(pp[0])
                    ev["pre"] = pp[1]
            if not st.get("nofence") and kind != "quit":
                answered, _ = fence(own_target)
                ev["ready"] = answered
                with s.lock:
                    lines = [l for _, l in s.out[cmd_mark:]]
                if "readyok" in lines:
                    lines = lines[:len(lines) - 1 - lines[::-1].index("readyok")]
                main = [l for l in lines if l.startswith("error") or l.startswith("info time") or l.startswith("id ") or l == "uciok"
                        or l.startswith("Hash:") or l.startswith("Fen:")]
                ev["refused"] = any(l.startswith("error") and "still running" in l for l in main)
                ev["error"] = next((l for l in main if l.startswith("error")), "")
                for l in main:
                    m = re.match(r"info time (\d+)", l)
                    if m:
                        v = int(m.group(1))
                        ev["infotime"] = clamp(v)
                        ev["infotime_overflow"] = v > INT_MAX
                if kind == "uci":
                    ev["uciok"] = "uciok" in lines
                if kind == "go" and not ev["refused"] and ev["error"] == "":
                    accepted_gos[0] += 1
                if kind in ("show", "d"):
                    ev["show"] = uci.parse_show(lines) if any(l.startswith("Fen: ") for l in lines) else {"fl": [], "rows": [], "hl": [-1, -1, -1, -1], "rec": [], "files": ""}
            events.append(ev)
            pump()
            if ev.get("ready") is False:
                # the engine no longer answers isready: it is wedged or dead; nothing more can be learnt from this session
                wedged = True
                break
        elif "waitbest" in st:
            # wait until every accepted go so far has been answered
            want = accepted_gos[0]
            ok = s.wait_until(lambda: s.best_count >= want, st["waitbest"])
            pump()
            events.append({"ev": "waited", "ok": ok, "t": int((time.time() - s.t0) * 1000)})
        elif "burst" in st:
            # N isready commands at once (while a search prints its lines): every one must come back as a line
            # that is exactly `readyok`; a reply glued into another line is counted separately
            n = st["burst"]
            with s.lock:
                mark = len(s.out)
                target = s.ready_count + n
            for _ in range(n):
                if not s.send("isready"):
                    break
            okb = s.wait_until(lambda: s.ready_count >= target, READY_TIMEOUT)
            time.sleep(0.05)
            with s.lock:
                lines = [l for _, l in s.out[mark:]]
            glued = [l for l in lines if "readyok" in l and l != "readyok"]
            events.append({"ev": "burst", "sent": n, "clean": sum(1 for l in lines if l == "readyok"), "glued": glued[:5], "nglued": len(glued),
                           "complete": okb})
            if not okb:
                # make up for replies that were glued so that later fences still count correctly
                with s.lock:
                    s.ready_count = target
            pump()
        elif "sleep" in st:
            time.sleep(st["sleep"])
            pump()
        elif "quit" in st:
            pump()
            events.append({"ev": "cmd", "text": "quit", "kind": "quit", "t": int((time.time() - s.t0) * 1000), "afterbest": False,
                           "best_seen": count_best(), "delivered": s.send("quit"), "ready": True, "refused": False, "error": ""})
            sent_quit = True
            rc = s.wait_exit(6.0)
            pump()
            events.append({"ev": "exit", "rc": rc if rc is not None else -999, "clean": rc == 0, "hung": rc is None})
    if wedged:
        try:
            s.p.kill()
        except Exception:
            pass
        s.wait_exit(3.0)
        pump()
        events.append({"ev": "exit", "rc": -998, "clean": False, "hung": True})
    elif not sent_quit:
        # settle: stop whatever is running, give pending bestmoves time to arrive, then quit
        if final_stop and s.alive():
            # the event takes its place in the trace where the command was SENT: what arrived before it first, what
            # it caused after it (an engine that answers `stop` before the fence's readyok must not look as if it had
            # answered before the stop)
            pump()
            t_stop = int((time.time() - s.t0) * 1000)
            seen = count_best()
            s.send("stop")
            answered, _ = fence()
            events.append({"ev": "cmd", "text": "stop", "kind": "stop", "t": t_stop, "afterbest": False,
                           "best_seen": seen, "delivered": True, "ready": answered, "refused": False, "error": ""})
            pump()
            if accepted_gos[0] > 0:
                # every accepted go has now been stopped: wait for the answers (the monitor judges an expired wait)
                want = accepted_gos[0]
                okw = s.wait_until(lambda: s.best_count >= want, 10.0)
                pump()
                events.append({"ev": "waited", "ok": okw, "t": int((time.time() - s.t0) * 1000)})
        time.sleep(0.05)
        pump()
        s.send("quit")
        rc = s.wait_exit(6.0)
        pump()
        events.append({"ev": "exit", "rc": rc if rc is not None else -999, "clean": rc == 0, "hung": rc is None})
    rc_final = s.close(2.0)
    with s.lock:
        err = [l for _, l in s.err]
    panics = [l for l in err if "panicked" in l or "overflow" in l or "RUST_BACKTRACE" in l]
    events.append({"ev": "end", "panic": bool(panics), "stderr": " | ".join(panics)[:400],
                   "sched": [l for l in err if l.startswith("#ev ")][:200]})
    return events
