#!/bin/sh
# usage: tlc.sh <metadir> <heap> <workers> <module.tla> <cfg> [extra TLC args]   (run inside /verif/spec)
META=$1; HEAP=$2; W=$3; MOD=$4; CFG=$5; shift 5
exec java -Xss1g -Xmx$HEAP -XX:+UseSerialGC -Dtlc2.tool.queue.IStateQueue=StateDeque \
  -DTLA-Library=/verif/spec/gen:/verif/spec \
  -cp /opt/veriftools/tla/tla2tools.jar:/opt/veriftools/tla/CommunityModules-deps.jar tlc2.TLC \
  -nowarning -workers $W -metadir $META -cleanup -noGenerateSpecTE -config $CFG "$@" $MOD
