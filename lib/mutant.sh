#!/bin/bash
# usage: mutant.sh <ID> <name> <checks...>   - apply /verif/seeded/<name>/patch.diff to /repo, run the given checks (quick), revert.
# Never leaves /repo modified.  Prints one line per check: DETECTED / MISSED.
ID=$1; NAME=$2; shift 2
cd /repo || exit 2
if ! git diff --quiet; then echo "repo not clean"; exit 2; fi
git apply /verif/seeded/$NAME/patch.diff || { echo "patch does not apply"; exit 2; }
trap 'cd /repo && git checkout -- . ' EXIT
cd /verif
for c in "$@"; do
  out=$(timeout 1800 ./check $c --tier quick 2>&1); rc=$?
  nv=$(echo "$out" | grep -c "^VIOLATION property=$c")
  first=$(echo "$out" | grep -A1 "^VIOLATION" | sed -n 2p | cut -c1-260)
  if [ $rc -eq 1 ] && [ $nv -gt 0 ]; then echo "DETECTED $NAME by $c ($nv replays) $first";
  elif [ $rc -eq 0 ]; then echo "MISSED   $NAME by $c";
  else echo "TOOLERR  $NAME by $c rc=$rc: $(echo "$out" | tail -3 | cut -c1-300)"; fi
  mkdir -p /verif/seeded/$NAME/replays && cp /verif/replays/$c-*.json /verif/seeded/$NAME/replays/ 2>/dev/null
done
