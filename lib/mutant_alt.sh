#!/bin/bash
# usage: mutant_alt.sh <name> <checks...>  - like mutant.sh, but on a scratch worktree (/tmp/repo-alt) so that /repo
# itself is never touched and other runs can go on; everything is written under /verif/.build-alt
NAME=$1; shift
ALT=/tmp/repo-alt$ALT_TAG      # ALT_TAG=2 etc.: a second scratch worktree and build directory for a parallel batch
if [ ! -d $ALT ]; then git -C /repo worktree add -q --detach $ALT HEAD || exit 2; fi
cd $ALT || exit 2
# the patch is applied to the newest tree it applies to (seeded/<name>/meta.json "applies_to", recorded when it was stored); BASE=<commit> overrides
BASE=${BASE:-$(python3 -c "import json,sys; print(json.load(open('/verif/seeded/$NAME/meta.json')).get('applies_to') or '')" 2>/dev/null)}
git checkout -q --detach ${BASE:-$(git -C /repo rev-parse HEAD)} 2>/dev/null
 git checkout -q -- . ; git clean -fdq
git apply /verif/seeded/$NAME/patch.diff || { echo "patch does not apply"; exit 2; }
trap 'cd '$ALT' && git checkout -q -- . && git clean -fdq' EXIT
cd /verif
for c in "$@"; do
  out=$(VERIF_REPO=$ALT VERIF_ALT_TAG=$ALT_TAG timeout 2400 ./check $c --tier quick 2>&1); rc=$?
  nv=$(echo "$out" | grep -c "^VIOLATION property=$c")
  first=$(echo "$out" | grep -A1 "^VIOLATION" | sed -n 2p | cut -c1-260)
  if [ $rc -eq 1 ] && [ $nv -gt 0 ]; then echo "DETECTED $NAME by $c ($nv replays) $first";
  elif [ $rc -eq 0 ]; then echo "MISSED   $NAME by $c";
  else echo "TOOLERR  $NAME by $c rc=$rc: $(echo "$out" | tail -3 | cut -c1-300)"; fi
  mkdir -p /verif/seeded/$NAME/replays && cp /verif/.build-alt$ALT_TAG/replays/$c-*.json /verif/seeded/$NAME/replays/ 2>/dev/null
done
