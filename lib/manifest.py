#!/usr/bin/env python3
"""Writes /verif/MANIFEST.json from the table below (one source of truth for the interface)."""
import json
import os
import subprocess

VERIF = os.path.dirname(os.path.dirname(os.path.abspath(__file__)))

GAME_NOTE = ("Trusted: the laws of chess as written in spec/Chess.tla (cross-checked by TLC against published perft counts), "
             "the snapshot hook, TLC. Exhaustive within the listed families/bounds; beyond them sampled.")

SEARCH_NOTE = ("Trusted: spec/Chess.tla, the poll hook, TLC. The search is driven in-process on the real functions with a shared real table; "
               "histories beyond the enumerated bounds are sampled.")

SESSION_NOTE = ("Trusted: spec/Chess.tla, the sched hooks, TLC, the driver's isready fencing. Timing judgements use a 2.5 s tolerance; "
                "a GUI issues the next go only after the previous one was answered.")

CHECKS = {
    "C01": ("TLA+ reference rules (Chess.tla) explored by TLC; TLC-enumerated position families replayed into the real move "
            "generator, random/search-shaped traces of it and the `perft` command-line divide validated by TraceGame.tla (trace validation both directions)",
            "TLC explores the rules state machine exhaustively from the listed roots (sanity inductive, move text injective) and "
            "enumerates whole position families on the full board; every member and every position of recorded games is imported "
            "into the real Game and TLC judges the checked list = Legal(pos) as a multiset and Legal <= unchecked <= Pseudo.", "6-C01", GAME_NOTE),
    "C02": ("TLC trace validation of every played move against Chess!Apply on TLC-enumerated families and recorded games; design-level Engine.tla (make/unmake model) explored exhaustively and stepped along every trace",
            "For every generated move of every family member and after every step of every recorded game the snapshot of the real "
            "Game must equal Chess!Apply(pos, m); castling-right monotonicity and sanity are TLC invariants of the reference machine.", "6-C02", GAME_NOTE),
    "C03": ("TLC trace validation with an observation stack: pop must restore the record saved at the matching push, queries must stutter; Engine.tla checked by TLC for Pop o Push = Id",
            "Search-shaped nested push/pop walks over the unchecked list (king captures included) and one push/pop of every generated "
            "move of every family member; TraceGame.tla keeps the stack of observations and requires equality at each pop and after each query. Capture-biased games from lib/phase_roots.txt cross the endgame threshold by play (push_history), so the king-table switch and the queries after it are observed in played games, not only in imported endgames.", "6-C03", GAME_NOTE),
    "C04": ("Zobrist.tla Hash over the key file (bytes read at check time) judged on every observation of every trace; README anchor; Engine.tla: incremental hash = Hash in every explored state",
            "Every observation carries the four hash limbs; TLC requires limbs = Hash(position) after import, push and pop, for "
            "families and recorded games, and D9C54592621D7040 for the start position.", "6-C04",
            GAME_NOTE + " The key layout is stated in spec/Zobrist.tla and anchored by the README hash."),
    "C05": ("TLC: key-table theorem (exhaustive), VIEW-count collision test over explored sets, single-feature variants imported by the real engine",
            "(a) exhaustive over the real key table: keys of a feature class pairwise distinct; (b) TLC counts distinct states under VIEW "
            "position and VIEW hash over families, legal play and the positions the drivers visited; (c) every single-feature variant of base "
            "positions is imported by the engine and TLC judges hash = Hash and hashes differ.", "6-C05",
            "Collision freedom is over the explored set only. Relies on C04 for impl hash = model hash."),
    "C06": ("SearchCtl.tla (design-level driver + table model) explored by TLC for all table histories; its scenarios instantiated on TLC-classified positions and run on the real search; TraceSearch.tla judges bestmove in LegalTexts(root)",
            "TLC checks on SearchCtl.tla that every completed search announces a legal move for all histories of 2-3 searches sharing a table; "
            "each abstract history is executed on the real search (shared real table) on positions whose kind TLC classified, plus "
            "same-game / other-game / deeper-then-shallower histories; TLC judges every announced move against Chess!Legal.", "6-C06", SEARCH_NOTE),
    "C07": ("TLC-enumerated stop classes (SearchCtl.tla StopNow) + exhaustive sweep of the stop poll index 0..total on the real search via the poll hook; TraceSearch.tla judges legality and polls-after-stop <= 1",
            "For each sampled position the real search is re-run once per node-entry poll index (every index from 0 to the end of the search "
            "within the cap), fresh and warmed tables; TLC requires a legal move whenever one exists and at most one poll after the flag went down. The same sweep runs on the real binary (go infinite with the stop flag lowered by the hook at the n-th node entry, game-like flows), so the check is decided even if the in-process harness no longer builds.", "6-C07", SEARCH_NOTE),
    "C08": ("SearchCtl.tla invariants (depth <= limit, counter ranges) and liveness (search terminates) checked by TLC; real search run on limit pairs, limits to 255, unlimited runs; TraceSearch.tla judges reported depths",
            "TLC proves on the design model that no history makes a limited search exceed its limit or run on; the real search is run on all "
            "deeper-then-shallower limit pairs, limit classes up to 255 on tiny positions and unlimited runs under a watchdog; TLC requires every "
            "reported depth <= limit, return without external stop once the limit is reached, and no panic. Includes the TLC family FORCED (lines in which each side has one legal move, for ever) on the release and the checked build.", "6-C08",
            SEARCH_NOTE + " A watchdog stop while all reported depths are below the limit is treated as a slow search (no verdict)."),
    "C09": ("RefSearch.tla (unpruned negamax with the named leaf rule) evaluated by TLC on full game trees dumped from the real engine, compared with the table-less optimised search under several ordering states; Pvs.tla: the window / re-search algorithm = negamax on all bounded abstract trees, including trees with no-legal-move terminals (the fail-soft return)",
            "For each (position, depth) the whole tree is dumped with the engine's generator and evaluation; the real search runs with the table "
            "emptied at every node (hook) and with fresh / random history tables; TLC computes the exhaustive value and requires equality after "
            "mate-range clamping. Window level: the windowed search is also called as an interior node (hook verif_window_search, depth 0-3, ~10 "
            "null and wide windows per case, also on positions after illegal pseudo-moves) and TLC requires the alpha-beta contract that Pvs.tla "
            "proves for every window (v<=a => r<=a; v>=b => r>=b; else r=v).", "6-C09", "TLC as evaluator of a transcribed pure function; trees <= 60000 nodes (depth <= 4 sparse, <= 2 rich)."),
    "C10": ("Chess.tla as independent mate solver (MateIn1Moves, KeepsMate2Moves, dead roots) run by TLC over a generated family; real search judged by TraceSearch.tla",
            "TLC classifies every member of the K+Q/R v K rim family (and fixed extra positions) into mate-in-1, forced mate-in-2, checkmated, "
            "stalemated; the real search runs from a fresh table to depth 3-5 / 5-6 / unlimited; TLC requires a mating / mate-keeping move, "
            "self-termination once a mate score is reported, and no move in dead positions. Design-level note (not a verdict): the table entries a real search leaves are judged by TLC against the exhaustive value of their nodes (PvsTable!InvSound via RefSearch!TT).", "6-C10", SEARCH_NOTE),
    "C11": ("Fen.tla printer and parser judged against every exported FEN of every trace state; re-import observed through the snapshot hook",
            "TLC checks printer/parser are inverse on all explored states; for every state of families and recorded games the exported text "
            "must equal FenFields(snapshot), be a well-formed six-field FEN, parse to the position, and its re-import must give the same "
            "position, hash and legal moves. In the DPUSH family the export and the re-import also run after every legal first move (the state right after each double step, reached by play).", "6-C11", GAME_NOTE),
    "C12": ("MoveText relation in TraceGame.tla (PosMoves action) judging the real binary's `position ... moves` on ALL 20480 move-shaped strings per position; text round trip on recorded games",
            "TLC proves move text injective on the explored reference states; for every sampled position (roots, FIDE-style FENs, TLC family "
            "members, game states reached through a move prefix) every string of move shape is sent to the real binary and TLC requires "
            "accepted <=> text of a legal move, accepted => the shown position is Apply(pos, m), refused => unchanged.", "6-C12",
            "Upper-case promotion letters and over-long strings are outside the universe (grey). " + GAME_NOTE),
    "C13": ("TimeBudget.tla (Allowed = 0..remaining; engine formula checked by TLC on the boundary grid, and proved for all naturals with TLAPS) + TraceSession.tla judging info time and announce time of the real binary on the TLC-enumerated grid",
            "TLC enumerates the boundary grid of clocks, increments and move times for both sides; every point is sent to the release and the "
            "checked binary as a go command and TLC requires 0 <= allotted <= time remaining for the mover, no overflow, and for small budgets "
            "that the bestmove arrives within budget plus a wide tolerance.", "6-C13", SESSION_NOTE + " Clock values are limited to 2^31-1 ms."),
    "C14": ("Uci.tla (PlusCal model of stdin loop, search thread, timer thread, flag objects, mutex) checked by TLC for all interleavings; its GUI command histories replayed on the real binary with each schedule window stretched by the sched hooks; TraceSession.tla judges transcripts",
            "TLC verifies at-most-one-bestmove, no refusal when quiescent, no panic, right position searched, bounded go answered and isready "
            "answered over all interleavings of 4-5 commands and 2 gos (and reproduces the three pinned defects when the repaired orders are "
            "switched off); every command history of the model is run on the real binary with one named window stretched, plus the named race "
            "scripts (among them a timer left asleep by an answered timed go under a later untimed go) and long randomized sessions on release and checked builds. A go without any time parameter that was not stopped may only be answered at its depth limit, on a mate score, on an only move or when the iteration depth is exhausted (TraceSession!Best, premature-answer rule).", "6-C14", SESSION_NOTE),
    "C15": ("Capacity.tla (stack arithmetic of every interface history) checked by TLC; the histories nearest each capacity, self-play, hill-climbed maximal-mobility boards and all rules/search drivers executed on the checked build (debug assertions + unsafe-precondition checks)",
            "TLC proves peak stack index <= 512 for every history of imports, position moves, searches of any depth and self-play under the "
            "repaired guards; the boundary histories (397-400 plies then go depth d / infinite), self-play to the end, maximal-mobility boards "
            "found by hill-climbing over accepted FENs, and the rules and search drivers run on builds where an out-of-range access panics.", "6-C15",
            "That an access is out of range is observed by Rust's own checks in the checked build; paths no driver reaches are missed."),
    "C16": ("Eval.tla piece-square sum (tables dumped from the compiled constants) judged on every observation; mirrored twin game; Engine.tla: incremental score = sum in every explored state",
            "Every observation's score must be the sum under one king table; a colour-mirrored twin game is played move for move and must "
            "have the negated score; TLC checks the mirror law on the reference model.", "6-C16", GAME_NOTE),
    "C17": ("Fen.tla three-way classifier (MustAccept/MustReject/Grey) judging Game::new and the binary's `position fen` on exhaustive single-character edits; FenScan.tla: the scanner state machine on every short string",
            "For each base FEN every single-character deletion/insertion/replacement over an alphabet of character classes, plus random "
            "multi-edits, is imported under catch_unwind; TLC classifies each string and requires: never a panic, MustReject refused, "
            "MustAccept imported as Parse(text) with its legal moves. A text whose only flaw is a castling or en-passant claim the board "
            "contradicts, or a castling field that repeats or reorders its letters, may be refused; if imported it is judged like a well-formed one (Fen!ImportJudged: the rights are the set of letters named). Every en-passant file with its single capturer on either side (board edges, both colours) is imported unedited.", "6-C17",
            "Other Grey inputs produce no verdict. The grammar in spec/Fen.tla is the trusted statement of 'well-formed'."),
    "C18": ("TraceSearch.tla Playable(root, pv) judged on every info pv line of searches run over shared-table histories",
            "Every principal variation printed by the real search (captured per search) over same-game, other-game, deeper/shallower and "
            "aborted-search table histories is replayed move by move on Chess.tla; each move must be legal where it is played.", "6-C18", SEARCH_NOTE),
    "C19": ("functional-dependency monitor (memo variable) in TraceSearch.tla and TraceSession.tla over repeated fixed-depth searches: fresh table / fresh process vs arbitrary histories ending in a reset / ucinewgame",
            "The same (position, depth) is searched from a fresh table, and again after different histories (other positions, other depths, "
            "aborted searches) followed by a table reset; TLC keeps the first result and requires every later one (best move, scores, "
            "principal variations, depths) to be identical.", "6-C19",
            "Reproducibility is decided over the perturbations exercised; there is no model of the allocator or hash-map internals."),
    "C20": ("Show.tla expected diagram / FEN line / hash line / move-record tokens judged on the engine's Display output along recorded games",
            "Along games played into the record (all move kinds, all four promotion pieces with and without capture) TLC compares the "
            "transliterated diagram, the Fen and Hash lines and every record token with what Show.tla prescribes. On the real binary, show is also judged around searches: whatever position command was accepted last is what show depicts, with each schedule window stretched in turn.", "6-C20", GAME_NOTE),
}

PENDING = {}


def main():
    commits = subprocess.run(["git", "-C", "/repo", "log", "--format=%h %s"], capture_output=True, text=True).stdout.splitlines()
    hooks = [c.split()[0] for c in commits if c.split(" ", 1)[1].startswith("verif hook")]
    props = [json.loads(l)["id"] for l in open(os.path.join(VERIF, "properties.jsonl"))]
    checks = []
    for pid in props:
        if pid not in CHECKS:
            continue
        tech, text, ref, note = CHECKS[pid]
        checks.append({
            "property_id": pid,
            "quick_cmd": "./check %s --tier quick" % pid,
            "thorough_cmd": "./check %s --tier thorough" % pid,
            "evidence_file": "/verif/evidence/%s.json" % pid,
            "replay_cmd_template": "./check %s --replay {path}" % pid,
            "engine": "tlc",
            "level_claimed": {"category": "model_checking", "text": text, "design_ref": "DESIGN.md section " + ref},
            "level_note": note,
            "technique": tech,
        })
    na = [{"property_id": p, "reason": PENDING.get(p, "check not built yet (work in progress); see DESIGN.md section 6")} for p in props if p not in CHECKS]
    m = {
        "version": 1,
        "setup_cmd": "./check setup",
        "hooks": {
            "guard": "daniel729_chess_verif",
            "enable": "RUSTFLAGS=\"--cfg daniel729_chess_verif\" (harness: harness/.cargo/config.toml, which also sets the value daniel729_chess_verif=\"window\" for the window-search hook; binary: lib/core.py build_bin)",
            "baseline_off_cmd": "cd /repo && cargo test --workspace --no-fail-fast --offline",
            "source_commits": list(reversed(hooks)),
            "add_only": True,
        },
        "engines": [{"name": "tlc", "path": "/opt/veriftools/tla/tla2tools.jar",
                     "serves_properties": [c["property_id"] for c in checks],
                     "kind_free_text": "TLC 1.8.0 explicit-state model checker: exhaustive exploration of the TLA+ specifications in spec/, "
                                       "generator of position families / scenarios, and judge of traces recorded from the real code"}],
        "checks": checks,
        "notes": "All verdicts come from TLC evaluating the property-level specifications in /verif/spec on executions of code built "
                 "from /repo's working tree; see DESIGN.md.",
        "not_applicable": na,
    }
    with open(os.path.join(VERIF, "MANIFEST.json"), "w") as f:
        json.dump(m, f, indent=1)
    print("MANIFEST.json: %d checks, %d not claimed" % (len(checks), len(na)))


if __name__ == "__main__":
    main()
