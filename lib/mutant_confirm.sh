#!/bin/bash
# usage: mutant_confirm.sh <worktree> <demo command...>
# In the scratch worktree: apply MUTANT/patch.diff, build, run the existing tests (release), run the demo
# (must fail), revert, rebuild, run the demo (must pass).  Prints CONFIRMED or the reason.
WT=$1; shift
cd $WT || exit 2
git checkout -q -- src 2>/dev/null
git apply MUTANT/patch.diff || { echo "NOT-CONFIRMED patch does not apply"; exit 1; }
cargo build --release --offline 2>&1 | grep -E "^error" && { echo "NOT-CONFIRMED does not compile"; git checkout -q -- src; exit 1; }
T=$(timeout 1500 cargo test --release --offline -- --skip perft7_position_3 --skip perft6_position_4 --skip perft5_kiwipete --skip fen_startpos 2>&1 | grep "^test result" | tail -1)
echo "tests with change: $T"
echo "$T" | grep -q "42 passed; 0 failed" || { echo "NOT-CONFIRMED tests do not pass"; git checkout -q -- src; exit 1; }
timeout 600 "$@" > /tmp/demo_with.log 2>&1; RC1=$?
git checkout -q -- src
cargo build --release --offline 2>&1 | grep -E "^error"
timeout 600 "$@" > /tmp/demo_without.log 2>&1; RC2=$?
echo "demo rc with change: $RC1 ; without: $RC2"
if [ $RC1 -ne 0 ] && [ $RC2 -eq 0 ]; then echo "CONFIRMED"; else echo "NOT-CONFIRMED demo outcomes"; tail -5 /tmp/demo_with.log; tail -5 /tmp/demo_without.log; fi
rm -rf $WT/target
