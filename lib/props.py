"""One function per property.  See DESIGN.md section 6 for the decision procedure of each."""
import json
import os
import re
import shutil
import sys

import core
import game
import gen

CHECKS = {}


def check(name):
    def deco(fn):
        CHECKS[name] = fn
        return fn
    return deco


def prepare(optional=False, run=None):
    """Build the harness from the working tree and generate the data modules.  optional=True (checks that can be decided
    on the real binary alone): if the harness no longer compiles against the tree - the in-process API changed - the
    in-process drivers are skipped with a note instead of giving up."""
    try:
        vh = core.build_harness()
    except core.ToolError as ex:
        if not optional:
            raise
        vh = None
        if run is not None:
            run.notes.append("the in-process harness does not build against this tree (API of the included sources changed); "
                             "in-process drivers skipped, the check is decided on the real binary: " + str(ex)[-200:].replace("\n", " "))
    core.gen_specs(vh)
    return vh


def setup():
    """MANIFEST.setup_cmd: build everything once, parse every specification."""
    vh = prepare()
    core.build_bin(False)
    core.build_bin(True)
    mods = sorted(f for f in os.listdir(core.SPEC) if f.endswith(".tla"))
    for m in mods:
        p = core.sh(["java", "-DTLA-Library=%s:%s:/opt/veriftools/tlapm/lib/tlapm/stdlib" % (core.GEN, core.SPEC), "-cp", core.CP, "tla2sany.SANY", m],
                    cwd=core.SPEC, check=False)
        if p.returncode != 0 or "Semantic errors" in p.stdout or "Parse Error" in p.stdout or "Could not parse" in p.stdout:
            raise core.ToolError("SANY rejects %s:\n%s" % (m, p.stdout[-2000:]))
    print("setup ok: harness %s, %d modules parsed" % (vh, len(mods)))


# --------------------------------------------------------------------------- families

FAMILY_SIZE_HINT = {"CASTLE": 32768, "KXK": 330000, "EP": 600000, "PROMO": 40000, "KXKY": 10 ** 7}


def families(run, specs, seed, tag):
    """specs: list of (family, stride).  TLC enumerates each family (Chess!Sane decides
    membership) and prints FENs; returns list of files with the FENs."""
    d = os.path.join(core.BUILD, "fam", tag)
    shutil.rmtree(d, ignore_errors=True)
    os.makedirs(d, exist_ok=True)

    def one(spec):
        fam, stride = spec
        off = seed % stride
        cfg = os.path.join(d, "%s.cfg" % fam)
        with open(cfg, "w") as f:
            f.write('SPECIFICATION Spec\nCONSTANTS Fam = "%s" Stride = %d Off = %d WantM2 = FALSE\nINVARIANT Emit\nCHECK_DEADLOCK FALSE\n' % (fam, stride, off))
        res = core.tlc_mc("Families", cfg, workers=4, tag="fam-%s-%s" % (tag, fam), heap="6g")
        if res["violated"]:
            raise core.ToolError("Families.tla: unexpected violation " + str(res["violated"]))
        fens = sorted(set(re.findall(r'^<<"FEN", "(.*)">>$', res["output"], re.M)))
        out = os.path.join(d, "%s.fens" % fam)
        with open(out, "w") as f:
            f.write("\n".join(fens) + ("\n" if fens else ""))
        res["output"] = ""
        return fam, stride, off, out, len(fens), res
    outs = core.pmap(one, specs, n=4)
    files = []
    for fam, stride, off, out, n, res in outs:
        run.add_mc(res, {"Fam": fam, "Stride": stride, "Off": off, "members_emitted": n})
        if n == 0:
            raise core.ToolError("family %s produced no member (stride %d)" % (fam, stride))
        files.append(out)
    return files


# --------------------------------------------------------------------------- rules layer

GAME_RULE = ("positions: members of TLC-enumerated families (Chess!Sane decides membership) imported into the real Game, "
             "plus every position visited by weighted-random legal games and search-style nested push/pop walks from "
             "lib/roots.txt; a case is one (position, generated move) pair or one position; distinct = distinct by raw "
             "snapshot (board, side, rights, ep); non-trivial = the position has at least one generated move")


def game_check(prop, judged, tier, seed, fam_quick, fam_thorough, mc_roots_quick, mc_depth_quick,
               mc_roots_thorough, mc_depth_thorough, invariants, play_quick, play_thorough, assumptions, extra=None):
    run = core.Run(prop, tier, seed)
    vh = prepare()
    quick = tier == "quick"
    # (M) exhaustive exploration of the reference state machine
    mc_roots, mc_depth = (mc_roots_quick, mc_depth_quick) if quick else (mc_roots_thorough, mc_depth_thorough)
    game.mc_chess(run, mc_roots, mc_depth, [i for i in invariants if i != "InvSingleFeature"], workers=12, tag=prop)
    if "InvSingleFeature" in invariants:
        # ~900 hash evaluations per state: on the full thorough state space this alone ran for more than an hour
        game.mc_chess(run, mc_roots[:5], min(mc_depth, 2), ["InvSingleFeature"], workers=12, tag=prop + "sf")
    if prop in ("C02", "C03", "C04", "C16"):
        game.mc_engine(run, quick, prop)
    # (B) spec -> impl: TLC-enumerated families replayed into the real Game
    game.trace_dir(prop)
    spec_list = fam_quick if quick else fam_thorough
    fams = families(run, [x for x in spec_list if x[0] != "DPUSH"], seed, prop)
    jobs = game.family_traces(run, vh, prop, fams)
    if any(x[0] == "DPUSH" for x in spec_list):
        # this family is about what happens right AFTER a particular move: every reply to every move is played too
        dp = families(run, [x for x in spec_list if x[0] == "DPUSH"], seed, prop + "dp")
        jobs += game.family_traces(run, vh, prop, dp, per_chunk=60, succ=2, label="dpush")
        fams += dp
    # (B) impl -> spec: randomized and search-shaped traces of the real Game
    n, games, plies, walk = play_quick if quick else play_thorough
    jobs += game.play_traces(run, vh, prop, n, games, plies, walk, seed)
    # games that trade down at once from just above the endgame threshold: the table switch happens in the played game
    pj = game.play_traces(run, vh, prop, 4 if quick else 16, 4, 30, walk, seed + 7, roots_file="phase_roots.txt", capture=70, label="phase")
    jobs += pj
    run.cov["phase_crossing_games"] = (4 if quick else 16) * 4
    if prop == "C01":
        # the same question through the command line: `rustybait perft 2 <fen>` divide lines against Chess!Perft
        import c12 as cli
        binary = core.build_bin(False)
        pool = gen.read_roots()
        for ff in fams:
            pool += [l.strip() for l in open(ff) if l.strip()][:: 40]
        import random as _r
        _r.Random(seed).shuffle(pool)
        pool = pool[:24 if quick else 150]
        dout = os.path.join(game.TRACES, prop, "divide.ndjson")
        with open(dout, "w") as f:
            for e in core.pmap(lambda fen: cli.divide(binary, fen, 2), pool):
                f.write(json.dumps(e) + "\n")
        jobs.append((dout, "rustybait perft 2 <fen> (divide) for %d positions" % len(pool)))
        run.cov["cli_divides"] = len(pool)
    positions, pairs = set(), set()
    kinds = {}
    judged_jobs = [job for job, res in game.judge_traces(run, jobs, judged)]
    for path, desc in judged_jobs:          # coverage counters are measured on the traces that were judged
        p, q, k = game.count_trace(path)
        positions |= p
        pairs |= q
        for kk, v in k.items():
            kinds[kk] = kinds.get(kk, 0) + v
    run.cov["evaluations"] = sum(kinds.values())
    run.cov["distinct_nontrivial"] = len(pairs)
    run.cov["distinct_positions"] = len(positions)
    run.cov["events_by_kind"] = kinds
    run.cov["rule"] = GAME_RULE
    for path, desc in (jobs[-1], jobs[0]):
        with open(path) as f:
            for i, l in enumerate(f):
                if i in (0, 2, 9):
                    run.sample({"trace": desc, "event_index": i + 1, "event": game.brief(json.loads(l))})
                if i > 9:
                    break
    run.assumptions += assumptions + [
        "the laws of chess as written in spec/Chess.tla (cross-checked by TLC against published perft counts in selftest)",
        "the raw projection Game::verif_snapshot (hook) reports the fields of Game faithfully",
        "exhaustiveness holds for the listed families and bounds only; beyond them coverage is sampled"]
    shutil.rmtree(os.path.join(game.TRACES, prop), ignore_errors=True)
    if extra is not None:
        extra(run, quick)
    run.finish()


START = "rnbqkbnr/pppppppp/8/8/8/8/PPPPPPPP/RNBQKBNR w KQkq - 0 1"
KIWI = "r3k2r/p1ppqpb1/bn2pnp1/3PN3/1p2P3/2N2Q1p/PPPBBPPP/R3K2R w KQkq - 0 1"
POS3 = "8/2p5/3p4/KP5r/1R3p1k/8/4P1P1/8 w - - 0 1"
POS4 = "r3k2r/Pppp1ppp/1b3nbN/nP6/BBP1P3/q4N2/Pp1P2PP/R2Q1RK1 w kq - 0 1"
POS5 = "rnbq1k1r/pp1Pbppp/2p5/8/2B5/8/PPP1NnPP/RNBQK2R w KQ - 1 8"
CAST = "r3k2r/8/8/8/8/8/8/R3K2R w KQkq - 0 1"
PROM = "n1n5/PPPk4/8/8/8/8/4Kppp/5N1N b - - 0 1"
EPR = "rnbqkbnr/ppp1p1pp/8/3pPp2/8/8/PPPP1PPP/RNBQKBNR w KQkq f6 0 3"


@check("C01")
def c01(tier, seed):
    game_check("C01", {"C01"}, tier, seed,
               fam_quick=[("CASTLE", 24), ("EP", 400), ("KXK", 300), ("PROMO", 40)],
               fam_thorough=[("CASTLE", 1), ("EP", 24), ("KXK", 16), ("PROMO", 4)],
               mc_roots_quick=[START, KIWI], mc_depth_quick=2,
               mc_roots_thorough=[START, KIWI, POS3, POS4, POS5, CAST, PROM, EPR], mc_depth_thorough=3,
               invariants=["InvSane", "InvUciInjective"],
               play_quick=(14, 3, 40, 2), play_thorough=(56, 8, 100, 2),
               assumptions=["C01 is judged at positions reachable by legal play (both kings present, side not to move not in check)"])


FAMQ = [("CASTLE", 24), ("EP", 400), ("KXK", 300), ("PROMO", 40), ("DPUSH", 1)]
FAMT = [("CASTLE", 2), ("EP", 24), ("KXK", 16), ("PROMO", 4), ("DPUSH", 1)]
ALLROOTS = [START, KIWI, POS3, POS4, POS5, CAST, PROM, EPR]


@check("C02")
def c02(tier, seed):
    game_check("C02", {"C02"}, tier, seed,
               fam_quick=[("CASTLE", 16), ("EP", 400), ("KXK", 600), ("PROMO", 24), ("DPUSH", 1)], fam_thorough=FAMT,
               mc_roots_quick=[CAST, EPR], mc_depth_quick=2, mc_roots_thorough=ALLROOTS, mc_depth_thorough=3,
               invariants=["InvSane"],
               play_quick=(14, 3, 50, 1), play_thorough=(56, 8, 120, 2),
               assumptions=["the successor is judged for every generated move (king captures included), after every step of every trace"])


@check("C03")
def c03(tier, seed):
    game_check("C03", {"C03"}, tier, seed,
               fam_quick=[("CASTLE", 32), ("EP", 500), ("KXK", 600), ("PROMO", 32)], fam_thorough=FAMT,
               mc_roots_quick=[CAST, PROM], mc_depth_quick=2, mc_roots_thorough=ALLROOTS, mc_depth_thorough=3,
               invariants=["InvSane"],
               play_quick=(14, 3, 30, 3), play_thorough=(56, 6, 80, 4),
               assumptions=["observables compared: board, side, rights, ep, game length, king locations, hash, score; "
                            "move lists and exported text are functions of these in a query-pure engine, and query purity is itself judged"])


@check("C04")
def c04(tier, seed):
    game_check("C04", {"C04"}, tier, seed,
               fam_quick=FAMQ, fam_thorough=FAMT,
               mc_roots_quick=[START, CAST], mc_depth_quick=2, mc_roots_thorough=ALLROOTS, mc_depth_thorough=3,
               invariants=["InvSane", "InvSingleFeature"] if tier == "thorough" else ["InvSane"],
               play_quick=(14, 3, 50, 2), play_thorough=(56, 8, 120, 2),
               assumptions=["the key layout stated in spec/Zobrist.tla (anchored by the README start-position hash)",
                            "text import is compared for texts in the engine's own en-passant convention"])


@check("C11")
def c11(tier, seed):
    game_check("C11", {"C11"}, tier, seed,
               fam_quick=FAMQ, fam_thorough=FAMT,
               mc_roots_quick=[START, EPR], mc_depth_quick=2, mc_roots_thorough=ALLROOTS, mc_depth_thorough=3,
               invariants=["InvSane", "InvFenRoundTrip"],
               play_quick=(14, 3, 50, 0), play_thorough=(56, 8, 120, 1),
               assumptions=["fields 5 and 6 are only required to be numerals"])


@check("C16")
def c16(tier, seed):
    game_check("C16", {"C16"}, tier, seed,
               fam_quick=FAMQ, fam_thorough=FAMT,
               mc_roots_quick=[START, POS3], mc_depth_quick=2, mc_roots_thorough=ALLROOTS, mc_depth_thorough=3,
               invariants=["InvSane", "InvMirror"],
               play_quick=(14, 3, 60, 2), play_thorough=(56, 8, 140, 3),
               assumptions=["score tables are read from the compiled constants of scores.rs at check time",
                            "either king table is allowed as long as both kings use the same one"])


@check("C20")
def c20(tier, seed):
    game_check("C20", {"C20"}, tier, seed,
               fam_quick=[("PROMO", 24), ("CASTLE", 64)], fam_thorough=[("PROMO", 2), ("CASTLE", 4), ("EP", 40)],
               mc_roots_quick=[START, PROM], mc_depth_quick=2, mc_roots_thorough=ALLROOTS, mc_depth_thorough=3,
               invariants=["InvSane"],
               play_quick=(14, 4, 60, 0), play_thorough=(56, 10, 150, 0),
               assumptions=["glyphs are transliterated by a fixed table; for promotions the origin file may be omitted"],
               extra=show_sessions)


def show_sessions(run, quick):
    """C20 on the real binary, around searches: whatever `position` command the engine accepted last is what `show` depicts,
    also when it was accepted while a search was ending (each schedule window stretched in turn).  TraceSession judges."""
    binary = core.build_bin(False)
    a = "position startpos moves e2e4 e7e5"
    b = "position fen 4k3/P7/8/8/8/8/8/4K3 w - - 0 1 moves a7a8r"
    c = "position fen r3k2r/p1ppqpb1/bn2pnp1/3PN3/1p2P3/2N2Q1p/PPPBBPPP/R3K2R w KQkq - 0 1 moves e1g1 e8c8"
    sessions = []
    for w in WINDOWS:
        env = {} if w == "none" else {"VERIF_SCHED_" + w: "300"}
        for gi, go in enumerate(["go movetime 1", "go depth 2", "go movetime 40"]):
            for delay in ((0.0, 0.15) if quick else (0.0, 0.05, 0.15, 0.35)):
                sessions.append({"id": "show-%s-%d-%d" % (w, gi, int(delay * 1000)), "binary": binary, "env": env, "steps": [
                    {"send": a}, {"send": "show"}, {"send": go}, {"sleep": delay}, {"send": b}, {"waitbest": 10}, {"send": "show"},
                    {"send": c, "afterbest": True}, {"send": "show", "afterbest": True}, {"send": "go depth 1", "afterbest": True}, {"waitbest": 10},
                    {"send": b, "afterbest": True}, {"send": "show", "afterbest": True}, {"quit": True}]})
    run_sessions(run, "C20", sessions, {"C20"}, "show")
    run.cov["show_sessions"] = len(sessions)
    shutil.rmtree(os.path.join(game.TRACES, "C20"), ignore_errors=True)


def replay(prop, path):
    """Re-run one replay file against the current tree; the same judge decides."""
    obj = json.load(open(path))
    driver = obj.get("driver")
    vh = prepare()          # no core.Run here: a run object clears the property's replay files, a replay must keep them
    if driver == "game-trace":
        d = game.trace_dir(prop + "-replay")
        out = os.path.join(d, "replay.ndjson")
        core.sh([vh, "replay", "--script", path, "--out", out])
        res = core.tlc_trace(out)
        bad = [f for f in res["fails"] if f["p"] in (prop, "PANIC")]
        for f in bad:
            print("VIOLATION property=%s replay=%s" % (prop, path))
            print("  " + json.dumps({"w": f["w"], "d": f["d"]}, ensure_ascii=False)[:600])
        print("replayed %d events: %s" % (res["events"], "property violated" if bad else "no violation"))
        sys.exit(1 if bad else 0)
    elif driver in REPLAYERS:
        REPLAYERS[driver](prop, obj, path, vh)
    else:
        raise core.ToolError("unknown replay driver %r" % driver)


REPLAYERS = {}


# --------------------------------------------------------------------------- C05

def view_counts(run, module, cfg_body, env, tag, workers=8):
    """Run the same exploration under VIEW PosView and VIEW HashView; returns the two distinct-state counts."""
    counts = {}
    for view in ("PosView", "HashView"):
        cfg = os.path.join(core.BUILD, "cfg", "%s-%s.cfg" % (tag, view))
        os.makedirs(os.path.dirname(cfg), exist_ok=True)
        with open(cfg, "w") as f:
            f.write(cfg_body + "VIEW %s\n" % view)
        res = core.tlc_mc(module, cfg, workers=workers, env=env, tag="%s-%s" % (tag, view))
        if res["violated"]:
            raise core.ToolError("%s: unexpected violation %s" % (module, res["violated"]))
        res["output"] = ""
        run.add_mc(res, {"view": view, "tag": tag})
        counts[view] = res["distinct"]
    return counts


@check("C05")
def c05(tier, seed):
    run = core.Run("C05", tier, seed)
    vh = prepare()
    quick = tier == "quick"
    # (a) single-feature theorem over the real key table (exhaustive: one state per feature class)
    res = core.tlc_mc("MC_Zobrist", "mc/MC_Zobrist.cfg", workers=4, tag="c05-zob")
    run.add_mc(res, {"feature_classes": 66})
    if res["violated"]:
        run.violation({"w": "key table: " + res["violated"] + " fails (two features share a key, or the state byte / anchor is wrong)",
                       "d": {"invariant": res["violated"]}}, {"driver": "mc", "module": "MC_Zobrist", "cfg": "mc/MC_Zobrist.cfg"})
    # (b) collision freedom over explored sets, inside TLC: equal distinct-state counts under the two views
    fams = [("CASTLE", 1), ("KXK", 16), ("EP", 64), ("PROMO", 4)] if quick else [("CASTLE", 1), ("KXK", 1), ("EP", 4), ("PROMO", 1)]
    explored = 0

    def fam_counts(spec):
        fam, stride = spec
        body = 'SPECIFICATION Spec\nCONSTANTS Fam = "%s" Stride = %d Off = %d WantM2 = FALSE\nINVARIANT NoEmit\nCHECK_DEADLOCK FALSE\n' % (fam, stride, seed % stride)
        return spec, view_counts(run, "Families", body, None, "c05-%s" % fam, workers=4)
    for (fam, stride), counts in core.pmap(fam_counts, fams, n=3):
        explored += counts["PosView"]
        if counts["PosView"] != counts["HashView"]:
            run.violation({"w": "two distinct positions of family %s share a hash" % fam,
                           "d": {"family": fam, "stride": stride, "positions": counts["PosView"], "hashes": counts["HashView"]}},
                          {"driver": "mc-view", "module": "Families", "family": fam, "stride": stride, "off": seed % stride})
    roots = [START, KIWI] if quick else ALLROOTS
    depth = 2 if quick else 3
    path = gen.gen_roots(roots, "roots_C05.json")
    body = "SPECIFICATION Spec\nCONSTANT MaxDepth = %d\nCHECK_DEADLOCK FALSE\n" % depth
    counts = view_counts(run, "MC_Chess", body, {"ROOTS": path}, "c05-chess", workers=12)
    explored += counts["PosView"]
    if counts["PosView"] != counts["HashView"]:
        run.violation({"w": "two distinct positions reached by legal play share a hash",
                       "d": {"roots": roots, "depth": depth, "positions": counts["PosView"], "hashes": counts["HashView"]}},
                      {"driver": "mc-view", "module": "MC_Chess", "roots": roots, "depth": depth})
    # (c) real code: single-feature variants imported by the engine; and the positions visited by the drivers
    d = game.trace_dir("C05")
    bases = gen.read_roots() + gen.read_roots(os.path.join(core.VERIF, "lib", "fide_roots.txt"))
    if not quick:
        famf = families(run, [("CASTLE", 600), ("EP", 9000), ("PROMO", 900), ("KXK", 7000)], seed, "C05b")
        for f in famf:
            bases += [l.strip() for l in open(f) if l.strip()]
    chunks = [bases[i::core.NPROC] for i in range(core.NPROC)]

    def mkvar(ic):
        i, chunk = ic
        lst = os.path.join(d, "var-%d.fens" % i)
        open(lst, "w").write("\n".join(chunk) + "\n")
        out = os.path.join(d, "var-%d.ndjson" % i)
        core.sh([vh, "variants", "--fens", lst, "--out", out])
        return (out, "vh variants (single-feature variations of %d base positions, first: %s)" % (len(chunk), chunk[0]))
    jobs = core.pmap(mkvar, [(i, c) for i, c in enumerate(chunks) if c])
    nvar = 0
    nacc = 0
    for pth, _ in jobs:
        with open(pth) as f:
            for l in f:
                nvar += 1
                e = json.loads(l)
                if e.get("ev") == "var" and e["b"].get("ok") and e["v"].get("ok"):
                    nacc += 1
                elif e.get("ev") == "states":
                    nacc += sum(1 for x in e["list"] if x[2].get("ok"))
    game.judge_traces(run, jobs, {"C05"})
    with open(jobs[0][0]) as f:
        for l in f:
            e = json.loads(l)
            if e.get("ev") == "var":
                run.sample({"driver": jobs[0][1], "event": {"ev": "var", "base": "".join(e["base"]), "var": "".join(e["var"]), "b": e["b"], "v": e["v"]}})
                break
            if e.get("ev") == "states" and len(run.cov["samples"]) == 0:
                run.sample({"driver": jobs[0][1], "event": {"ev": "states", "base": "".join(e["base"]), "combinations": len(e["list"]), "first": e["list"][:3]}})
    # positions visited by the play driver: (position, hash) pairs as an initial-state set, two views
    pj = game.play_traces(run, vh, "C05", 14 if quick else 56, 4 if quick else 10, 60 if quick else 120, 2, seed)
    pairs = {}
    for path, _ in pj:
        with open(path) as f:
            for l in f:
                e = json.loads(l)
                o = e.get("o")
                if o and e["ev"] in ("new", "push", "pop"):
                    key = "".join(o["b"]) + o["stm"] + "".join(o["cast"]) + str(o["ep"])
                    pairs.setdefault(key, set()).add(tuple(o["h"]))
    pf = os.path.join(d, "pairs.ndjson")
    with open(pf, "w") as f:
        for k, hs in pairs.items():
            for h in hs:
                f.write(json.dumps({"k": k, "h": list(h)}) + "\n")
    counts = view_counts(run, "Collide", "SPECIFICATION Spec\nCHECK_DEADLOCK FALSE\n", {"PAIRS": pf}, "c05-collide", workers=2)
    if counts["PosView"] != counts["HashView"]:
        run.violation({"w": "two distinct positions visited on the real engine share a hash (or one position has two hashes)",
                       "d": {"positions": counts["PosView"], "hashes": counts["HashView"]}},
                      {"driver": "collide", "note": "re-run ./check C05 with the same seed"})
    run.cov["evaluations"] = nvar + len(pairs) + explored
    run.cov["distinct_nontrivial"] = len(pairs) + explored
    run.cov["variants_generated"] = nvar
    run.cov["variants_imported"] = nacc        # the reader refuses variations that are no positions (a right without its rook, a void ep square)
    run.cov["impl_positions_hashed"] = len(pairs)
    run.cov["model_positions_hashed"] = explored
    run.cov["rule"] = ("(a) 66 feature classes of the real key table, exhaustive; (b) every position of the listed families and of "
                       "legal play to the listed depth is hashed by spec/Zobrist.tla and TLC counts distinct states under VIEW position "
                       "and VIEW hash; (c) every single-feature variation (side, 4 rights, 9 ep values, 64x13 contents) of each base "
                       "position is offered to the real engine and, where the reader accepts it (it refuses rights and en-passant squares the board "
                       "contradicts), both hashes are judged; positions visited by the play driver are "
                       "fed back as an initial-state set. distinct = distinct positions")
    run.assumptions += ["collision freedom is a statement about the explored set only (a 64-bit hash has collisions)",
                        "implementation hash = Zobrist!Hash is established by C04 on the same kind of traces"]
    shutil.rmtree(d, ignore_errors=True)
    run.finish()


# --------------------------------------------------------------------------- C17

def ep_edge_fens():
    """Sparse positions with an en-passant square on file f and exactly one pawn able to capture, on file f-1 or f+1."""
    def rank(cells):
        out, n = "", 0
        for c in cells:
            if c == ".":
                n += 1
            else:
                out += (str(n) if n else "") + c
                n = 0
        return out + (str(n) if n else "")
    res = []
    for f in range(8):
        for dd in (-1, 1):
            if not 0 <= f + dd <= 7:
                continue
            w = ["."] * 8
            w[f], w[f + dd] = "p", "P"          # White to move: black pawn just double-stepped to rank 5
            res.append("4k3/8/8/%s/8/8/8/2K5 w - %s6 0 1" % (rank(w), "abcdefgh"[f]))
            b = ["."] * 8
            b[f], b[f + dd] = "P", "p"          # Black to move: white pawn just double-stepped to rank 4
            res.append("2k5/8/8/8/%s/8/8/4K3 b - %s3 0 1" % (rank(b), "abcdefgh"[f]))
    return res


@check("C17")
def c17(tier, seed):
    run = core.Run("C17", tier, seed)
    vh = prepare()
    quick = tier == "quick"
    game.mc_chess(run, [START, EPR] if quick else ALLROOTS, 2 if quick else 3, ["InvSane", "InvFenRoundTrip"], workers=12, tag="C17")
    # design level: the board-field scanner on every string up to 6 (7) characters over the scaled alphabet
    r = core.tlc_mc("FenScan", "mc/FenScan_fixed6.cfg" if quick else "mc/FenScan_fixed.cfg", workers=8, tag="c17-fenscan", heap="12g")
    if r["violated"]:
        raise core.ToolError("FenScan.tla (repaired scanner) violates %s" % r["violated"])
    r["output"] = ""
    run.add_mc(r, {"W": 3, "MaxLen": 6 if quick else 7, "Strict": True})
    d = game.trace_dir("C17")
    bases = gen.read_roots() + gen.read_roots(os.path.join(core.VERIF, "lib", "fide_roots.txt"))
    if quick:
        k = seed % 3
        bases = bases[k::3]
    else:
        famf = families(run, [("CASTLE", 800), ("EP", 12000), ("PROMO", 1000), ("KXK", 9000)], seed, "C17")
        for f in famf:
            bases += [l.strip() for l in open(f) if l.strip()]
    chunks = [bases[i::core.NPROC] for i in range(core.NPROC)]

    def mk(ic):
        i, chunk = ic
        lst = os.path.join(d, "base-%d.fens" % i)
        open(lst, "w").write("\n".join(chunk) + "\n")
        out = os.path.join(d, "fenmut-%d.ndjson" % i)
        core.sh([vh, "fenmut", "--fens", lst, "--out", out, "--mode", "exhaustive"])
        jobs = [(out, "vh fenmut --mode exhaustive (all single-character edits of %d bases, first: %s)" % (len(chunk), chunk[0]))]
        out2 = os.path.join(d, "fenrand-%d.ndjson" % i)
        core.sh([vh, "fenmut", "--fens", lst, "--out", out2, "--mode", "random", "--seed", str(seed * 100 + i),
                 "--n", "300" if quick else "1500"])
        jobs.append((out2, "vh fenmut --mode random --seed %d (double/triple edits)" % (seed * 100 + i)))
        return jobs
    jobs = [j for js in core.pmap(mk, [(i, c) for i, c in enumerate(chunks) if c]) for j in js]
    # every en-passant file with the one capturing pawn on either side of it (the board edges included), both colours:
    # well-formed texts, imported in their 4/5/6-field forms, no edits (position, legal moves, and over UCI)
    epl = os.path.join(d, "ep-edges.fens")
    open(epl, "w").write("\n".join(ep_edge_fens()) + "\n")
    epo = os.path.join(d, "ep-edges.ndjson")
    core.sh([vh, "fenmut", "--fens", epl, "--out", epo, "--mode", "bases"])
    jobs.append((epo, "vh fenmut --mode bases (each en-passant file x capturer on either side x colour, %d texts)" % len(ep_edge_fens())))
    run.cov["ep_edge_bases"] = len(ep_edge_fens())
    strings = set()
    accepted = 0
    n = 0
    for path, _ in jobs:
        with open(path) as f:
            for l in f:
                e = json.loads(l)
                n += 1
                strings.add("".join(e["fen"]))
                accepted += 1 if e["ok"] else 0
    # the same strings through the real binary: `position fen <s>` + `show`
    import c12 as sweepmod
    binary = core.build_bin(False)
    rs = sorted(strings)
    import random as _r
    _r.Random(seed).shuffle(rs)
    rs = rs[:6000 if quick else 60000]
    uchunks = [rs[i::core.NPROC] for i in range(core.NPROC)]

    def mku(ic):
        i, chunk = ic
        out = os.path.join(d, "ufen-%d.ndjson" % i)
        with open(out, "w") as f:
            for e in sweepmod.fen_sweep(binary, chunk):
                f.write(json.dumps(e) + "\n")
        return (out, "position fen <s> + show on the real binary (%d strings)" % len(chunk))
    ujobs = core.pmap(mku, [(i, c) for i, c in enumerate(uchunks) if c])
    run.cov["strings_sent_over_uci"] = len(rs)
    game.judge_traces(run, jobs + ujobs, {"C17"})
    with open(jobs[0][0]) as f:
        for i, l in enumerate(f):
            if i in (0, 5, 70, 400):
                e = json.loads(l)
                run.sample({"driver": jobs[0][1], "string": "".join(e["fen"]), "accepted": e["ok"], "error": e.get("err")})
    run.cov["evaluations"] = n
    run.cov["distinct_nontrivial"] = len(strings)
    run.cov["accepted_by_engine"] = accepted
    run.cov["base_fens"] = len(bases)
    run.cov["rule"] = ("for each base FEN (lib/roots.txt, lib/fide_roots.txt, TLC family members): the base in 4/5/6-field form, every "
                       "single-character deletion, every insertion and replacement at every index from a 37-symbol alphabet of character "
                       "classes (piece letters, digits 0-9, '/', '-', space, tab, w W x a h i A e, 2- and 4-byte characters), named "
                       "whole-field replacements, and random double/triple edits; each string is classified by spec/Fen.tla "
                       "(MustAccept / MustReject / Grey) and the outcome of Game::new judged; distinct = distinct strings")
    run.assumptions += ["grey inputs (adjacent digits, unusual castling order/duplicates, ep rank inconsistent with the side, extra fields, "
                        "non-numeric clocks, irregular whitespace, well-formed text of an insane position) produce no verdict either way"]
    shutil.rmtree(d, ignore_errors=True)
    run.finish()


# --------------------------------------------------------------------------- C12

@check("C12")
def c12(tier, seed):
    import c12 as sweepmod
    import random
    run = core.Run("C12", tier, seed)
    vh = prepare()
    binary = core.build_bin(False)
    quick = tier == "quick"
    rnd = random.Random(seed)
    game.mc_chess(run, [START, EPR] if quick else ALLROOTS, 2 if quick else 3, ["InvSane", "InvUciInjective"], workers=12, tag="C12")
    d = game.trace_dir("C12")
    # (a) in-process: every legal move's text reads back as the same move (rt queries of play traces)
    pj = game.play_traces(run, vh, "C12", 14 if quick else 42, 2 if quick else 6, 40 if quick else 100, 0, seed)
    # (b) positions for the all-strings sweep: roots, FIDE-style texts, TLC family members, states of recorded games (with prefix)
    cases = [(f, []) for f in gen.read_roots() + gen.read_roots(os.path.join(core.VERIF, "lib", "fide_roots.txt"))]
    famf = families(run, [("EP", 20000), ("CASTLE", 2000), ("PROMO", 2000), ("CASTLETEXT", 12)] if quick
                    else [("EP", 1200), ("CASTLE", 80), ("PROMO", 100), ("KXK", 3000), ("CASTLETEXT", 1)], seed, "C12")
    for f in famf:
        cases += [(l.strip(), []) for l in open(f) if l.strip()]
    hist = []
    for path, _ in pj:
        root, mvs = None, []
        with open(path) as f:
            for l in f:
                e = json.loads(l)
                if e["ev"] == "new":
                    root, mvs = "".join(e["fen"]), []
                elif e["ev"] == "push" and e.get("hist"):
                    mvs.append(e["mv"])
                    if len(mvs) <= (8 if quick else 30) and rnd.random() < (0.2 if quick else 0.25):
                        hist.append((root, list(mvs)))
    rnd.shuffle(hist)
    cases += hist[:25 if quick else 150]        # each history case replays its prefix 20480 times: keep them few
    cases.append(("startpos", []))
    cases.append(("startpos", "e2e4 a7a6 e4e5 d7d5".split()))
    if quick and len(cases) > 70:
        fixed = cases[:31]
        rest = cases[31:]
        rnd.shuffle(rest)
        cases = fixed + rest[:39]
    chunks = [cases[i::core.NPROC] for i in range(core.NPROC)]

    def mk(ic):
        i, chunk = ic
        out = os.path.join(d, "pm-%d.ndjson" % i)
        with open(out, "w") as f:
            for k, (fen, pre) in enumerate(chunk):
                # the FEN is sent in its six-, five- and four-field form in turn
                f.write(json.dumps(sweepmod.sweep(binary, fen, pre, fields=6 - (k + i) % 3)) + "\n")
        return (out, "position <fen> moves <prefix> s + show on the real binary for all 20480 move-shaped strings s (%d positions, first: %s %s)" % (len(chunk), chunk[0][0], " ".join(chunk[0][1])))
    jobs = core.pmap(mk, [(i, c) for i, c in enumerate(chunks) if c])
    game.judge_traces(run, jobs + pj, {"C12"})
    nacc = 0
    for path, _ in jobs:
        for l in open(path):
            e = json.loads(l)
            nacc += len(e.get("acc", []))
    e = json.loads(open(jobs[0][0]).readline())
    run.sample({"driver": jobs[0][1], "fen": "".join(e["fen"]), "prefix": e["pre"], "accepted": [a[0] for a in e["acc"]][:12],
                "shown_after_first": e["acc"][0][1]["fl"] if e["acc"] else None, "distinct_positions_shown_after_refusal": [r["fl"] for r in e["rej"]]})
    run.cov["evaluations"] = len(cases) * len(sweepmod.UNIVERSE)
    run.cov["distinct_nontrivial"] = len(set((c[0], tuple(c[1])) for c in cases))
    run.cov["positions_swept"] = len(cases)
    run.cov["strings_per_position"] = len(sweepmod.UNIVERSE)
    run.cov["strings_accepted"] = nacc
    run.cov["positions_with_history_prefix"] = len([c for c in cases if c[1]])
    run.cov["rule"] = ("(a) every legal move of every state of recorded games: text -> from_uci_notation -> same move; (b) for each position "
                       "(roots, FIDE-style FENs, TLC family members, states of recorded games given as root + move prefix) ALL 20480 strings "
                       "of move shape are sent to the real binary as `position ... moves <prefix> s`, `show`; TLC requires accepted <=> "
                       "s in LegalTexts(pos), accepted => shown = Apply(pos, m), refused => nothing or the unchanged position shown. "
                       "distinct_nontrivial counts distinct (position, prefix) cases")
    run.assumptions += ["upper-case promotion letters and over-long strings are outside the universe of move-shaped strings (grey)"]
    shutil.rmtree(d, ignore_errors=True)
    run.finish()


# --------------------------------------------------------------------------- search layer

import search as srch  # noqa: E402

SEARCH_ASSUME = ["the search is driven in-process through get_best_move_until_stop with the poll hook; the UCI path is covered by C14",
                 "root kinds (dead, single reply, mate in 1/2) are classified by TLC from spec/Chess.tla, not by the engine",
                 "depth is bounded (<= 5 in-process on rich positions, to 255 on tiny ones)"]


def search_pools(run, vh, prop, seed, quick, want_m2=False, stride=None):
    classes = srch.solver_positions(run, seed, stride or (1200 if quick else 150), want_m2, prop)
    flat, games = srch.game_positions(vh, prop, seed, 6 if quick else 30, 40 if quick else 80, 4)
    roots = [(f, []) for f in gen.read_roots()]
    rich = [x for x in flat + roots]
    pools = {"dead": [(f, []) for f in classes.get("mate", []) + classes.get("stale", [])] or [("7k/5Q2/6K1/8/8/8/8/8 b - - 0 1", [])],
             "only": [(f, []) for f in classes.get("only", [])] or [("7k/8/5K2/8/8/8/8/6R1 b - - 0 1", [])],
             "mating": [(f, []) for f in classes.get("m1", [])] or [("6k1/5ppp/8/8/8/8/8/R5K1 w - - 0 1", [])],
             "two": [(f, []) for f in srch.TINY] + [(f, []) for f in classes.get("only", [])[:0]],
             "many": rich}
    return classes, pools, flat, games


def search_check_pv(prop, judged, tier, seed, build):
    search_check(prop, judged, tier, seed, build, pv=True)


def search_check(prop, judged, tier, seed, build, pv=False, uci_extra=None, extra=None):
    """build(run, vh, quick, rnd, classes, pools, flat, games) -> list of (label, histories);
    uci_extra(run, quick, rnd): a batch on the real binary that needs no in-process harness"""
    import random
    run = core.Run(prop, tier, seed)
    vh = prepare(optional=(prop == "C19" or uci_extra is not None), run=run)
    quick = tier == "quick"
    rnd = random.Random(seed)
    game.trace_dir(prop)
    if vh is None and prop != "C19":
        batches = []          # decided on the binary alone (uci_extra)
    else:
        batches = build(run, vh, quick, rnd)
    if vh is None:
        batches = []
    if uci_extra is not None:
        uci_extra(run, quick, rnd)
    if extra is not None and vh is not None:
        extra(run, quick, rnd, vh)
    total = 0
    keys = set()
    alljobs = []
    for label, hs in batches:
        jobs, n = srch.run_histories(run, vh, prop, hs, judged, label, pv=pv)
        alljobs += jobs
        total += n
    for e in srch.read_events(alljobs):
        if e.get("ev") == "go":
            keys.add(("".join(e["fen"]), tuple(e["pre"]), e["limit"], e["stop"], e["fresh"]))
    k = 0
    for e in srch.read_events(alljobs[:1] + alljobs[-1:]):
        if e.get("ev") == "go" and k < 5 and (k % 2 == 0 or e["stop"] >= 0):
            run.sample({"fen": "".join(e["fen"]), "prefix": e["pre"], "limit": e["limit"], "stop_at_poll": e["stop"], "fresh_table": e["fresh"],
                        "best": e["best"], "depths": e["info"]["depths"], "pvs": e["info"]["pvs"][-1:], "polls": e["polls"],
                        "polls_after_stop": e["after"], "history": e["h"], "step": e["s"]})
        k += 1
    run.cov["evaluations"] = run.cov.get("evaluations", 0) + total
    run.cov["distinct_nontrivial"] = len(keys)
    run.cov["rule"] = ("one case = one search (root position, depth limit, stop poll index, table history before it); distinct by "
                       "(root, prefix, limit, stop index, fresh); histories come from the SearchCtl.tla scenario enumeration (all table "
                       "histories of 2 searches x stop classes) instantiated on TLC-classified positions, plus the batches named in "
                       "coverage.batches")
    run.cov["batches"] = {label: len(hs) for label, hs in batches}
    run.assumptions += SEARCH_ASSUME
    shutil.rmtree(os.path.join(game.TRACES, prop), ignore_errors=True)
    run.finish()


@check("C06")
def c06(tier, seed):
    def build(run, vh, quick, rnd):
        srch.searchctl(run, 2, True, "C06")
        if not quick:
            srch.searchctl(run, 3, False, "C06b")
            srch.pvs_table(run, ["shared", "deep"], "C06")
        classes, pools, flat, games = search_pools(run, vh, "C06", seed, quick)
        scns = [s for s in srch.scenarios(run, "C06") if all(x["stop"] == "natural" for x in s)]
        if quick:
            rnd.shuffle(scns)
            scns = scns[:900]
        hs = [srch.instantiate(s, pools, rnd) for s in scns]
        depths = [1, 2, 3] if quick else [1, 2, 3, 4]
        pos = rnd.sample(flat, min(len(flat), 12 if quick else 60)) + [(f, []) for f in srch.TINY]
        th = srch.table_histories(rnd, pos, games[:4 if quick else 20], depths, 300 if quick else 1500)
        # search a position, then (same table) the dead position one finishing move later: the dead root was an
        # interior node of the first search and its cached entry is returned without re-validation
        fin = []
        for fen, fm in sorted(classes.get("_finishing", {}).items()):
            for mv in (fm.get("mate", []) + fm.get("stale", []))[:3]:
                for da in ([3, 4] if quick else [2, 3, 4, 5]):
                    fin.append([srch.step(fen, [], limit=da, tag="before-the-end"), srch.step(fen, [mv], limit=rnd.choice([1, 2, 3]), tag="dead-after")])
        if quick:
            rnd.shuffle(fin)
            fin = fin[:250]
        rep = [[srch.step("startpos", srch.REPETITION_PREFIX, limit=d), srch.step("startpos", srch.REPETITION_PREFIX + ["g8f6"], limit=d)] for d in depths]
        inter = srch.interior_histories(rnd, pos[:6 if quick else 30], 8 if quick else 40, 3 if quick else 6)
        # perpetual-check shuttles in TLC family members: the repetition filter is armed while the side to move has
        # exactly one legal move (the move it played two moves ago)
        mf = families(run, [("MATES", 60 if quick else 6)], seed, "C06cyc")
        cyc_out = os.path.join(game.TRACES, "C06", "cycles.ndjson")
        core.sh([vh, "cycles", "--fens", mf[0], "--out", cyc_out, "--max", "60" if quick else "600"], timeout=600)
        for l in open(cyc_out):
            c = json.loads(l)
            for dd in depths:
                rep.append([srch.step(c["fen"], c["pre"], limit=dd, tag="perpetual-single-reply")])
            rep.append([srch.step(c["fen"], c["pre"][:5], limit=2, tag="perpetual-earlier"), srch.step(c["fen"], c["pre"], limit=2, tag="perpetual-single-reply")])
        run.cov["perpetual_scenarios"] = sum(1 for _ in open(cyc_out))
        # self-play of the real binary (`auto`), every search cut after N polls by the hook: each move of the printed game
        # must be a legal move of the position before it
        import c12 as cli
        binary = core.build_bin(False)
        sp = core.pmap(lambda n: cli.selfplay(binary, n), [0, 25, 120, 600] if quick else [0, 1, 5, 25, 60, 120, 300, 600, 2000])
        spf = os.path.join(game.TRACES, "C06", "selfplay.ndjson")
        open(spf, "w").write("\n".join(json.dumps(e) for e in sp) + "\n")
        game.judge_traces(run, [(spf, "rustybait auto with VERIF_STOP_AFTER=N (self-play transcripts)")], {"C06"})
        run.cov["self_play_plies"] = [e["plies"] for e in sp]
        return [("scn", hs), ("tablehist", th), ("finishing", fin), ("repetition", rep), ("after-interrupt", inter)]
    search_check("C06", {"C06"}, tier, seed, build)


@check("C07")
def c07(tier, seed):
    def build(run, vh, quick, rnd):
        srch.searchctl(run, 2, True, "C07")
        classes, pools, flat, games = search_pools(run, vh, "C07", seed, quick)
        # (1) every abstract history with a stop in it, from the SearchCtl.tla enumeration
        scns = [s for s in srch.scenarios(run, "C07") if any(x["stop"] != "natural" for x in s)]
        if quick:
            rnd.shuffle(scns)
            scns = scns[:500]
        hs = [srch.instantiate(s, pools, rnd) for s in scns]
        # (2) exhaustive in the stop index: pilot run counts the polls, then one search per index 0..total
        pos = [(f, []) for f in gen.read_roots()[:: (3 if quick else 1)]] + rnd.sample(flat, min(len(flat), 6 if quick else 40))
        pos += [(f, []) for f in classes.get("only", [])[:3] + classes.get("m1", [])[:3]]
        pilots = [[srch.step(f, p, limit=(3 if quick else 4), tag="pilot")] for f, p in pos]
        pj, _ = srch.run_histories(run, vh, "C07", pilots, {"C07"}, "pilot")
        totals = {}
        for e in srch.read_events(pj):
            if e.get("ev") == "go":
                totals[("".join(e["fen"]), tuple(e["pre"]))] = e["polls"]
        sweep = []
        cap = 400 if quick else 6000
        for f, p in pos:
            t = totals.get((f, tuple(p)), 0)
            idx = list(range(0, min(t, cap) + 2))
            if t > cap:
                idx += sorted(rnd.sample(range(cap, t + 1), min(200 if quick else 2000, t + 1 - cap)))
            for n in idx:
                sweep.append([srch.step(f, p, limit=(3 if quick else 4), stop=n, tag="sweep")])
            # the same with a table warmed by an earlier search of the same position
            for n in idx[:: (7 if quick else 3)]:
                sweep.append([srch.step(f, p, limit=1, tag="warm"), srch.step(f, p, limit=None, stop=n, tag="sweep-warm")])
        run.cov["stop_indices_per_position"] = {f[:30]: totals.get((f, tuple(p)), 0) for f, p in pos[:8]}
        inter = srch.interior_histories(rnd, pos[:8 if quick else 30], 12 if quick else 60, 3 if quick else 6)
        return [("scn", hs), ("stopsweep", sweep), ("after-interrupt", inter)]

    def over_uci(run, quick, rnd):
        # the same question on the real binary: `go infinite` with the stop flag lowered by the hook at the n-th node
        # entry of each search (VERIF_STOP_AFTER=n), over game-like flows (the table is inherited from search to search);
        # TraceSession judges each bestmove against the position that was set
        binary = core.build_bin(False)
        flows = [["position startpos", "position startpos moves e2e4 e7e5", "position startpos moves e2e4 c7c5 g1f3"],
                 ["position fen r3k2r/p1ppqpb1/bn2pnp1/3PN3/1p2P3/2N2Q1p/PPPBBPPP/R3K2R w KQkq - 0 1",
                  "position fen r3k2r/p1ppqpb1/bn2pnp1/3PN3/1p2P3/2N2Q1p/PPPBBPPP/R3K2R w KQkq - 0 1 moves e1g1 e8c8"],
                 ["position fen 8/2p5/3p4/KP5r/1R3p1k/8/4P1P1/8 w - - 0 1", "position fen 4k3/8/8/8/8/8/1N6/r3K3 w - - 0 1",
                  "position fen 6k1/5ppp/8/8/8/8/5PPP/3R2K1 w - - 0 1", "position fen 7k/5Q2/6K1/8/8/8/8/8 b - - 0 1"]]
        ns = [0, 1, 2, 3, 5, 8, 13, 21, 34, 55, 89, 144, 233, 377] if quick else list(range(0, 60)) + list(range(60, 1200, 17))
        sessions = []
        for n in ns:
            for fi, flow in enumerate(flows):
                steps = []
                for posn in flow:
                    steps += [{"send": posn, "afterbest": True}, {"send": "go infinite", "afterbest": True}, {"waitbest": 20}]
                sessions.append({"id": "stop-at-poll-%d-flow%d" % (n, fi), "binary": binary, "env": {"VERIF_STOP_AFTER": str(n)}, "steps": steps + [{"quit": True}]})
        outs, nev = run_sessions(run, "C07", sessions, {"C07"}, "stop-uci")
        run.cov["evaluations"] = run.cov.get("evaluations", 0) + sum(len(f) for f in flows) * len(ns)
        run.cov["uci_stop_sweep"] = {"stop_indices": len(ns), "flows": len(flows), "searches": sum(len(f) for f in flows) * len(ns)}
    search_check("C07", {"C07"}, tier, seed, build, uci_extra=over_uci)


@check("C08")
def c08(tier, seed):
    def build(run, vh, quick, rnd):
        srch.searchctl(run, 2, True, "C08")
        if not quick:
            srch.searchctl(run, 3, False, "C08b")
        classes, pools, flat, games = search_pools(run, vh, "C08", seed, quick)
        scns = [s for s in srch.scenarios(run, "C08") if any(x["limit"] > 0 for x in s)]
        if quick:
            rnd.shuffle(scns)
            scns = scns[:500]
        hs = [srch.instantiate(s, pools, rnd) for s in scns]
        # deeper-then-shallower on the same position, all pairs of limits, rich and tiny positions
        pos = rnd.sample(flat, min(len(flat), 8 if quick else 40)) + [(f, []) for f in srch.TINY]
        lims = [1, 2, 3, 4] if quick else [1, 2, 3, 4, 5]
        pairs = [[srch.step(f, p, limit=a), srch.step(f, p, limit=b), srch.step(f, p, limit=c)]
                 for f, p in pos for a in lims for b in lims for c in (1, 2) if not (a <= b <= c)]
        rnd.shuffle(pairs)
        pairs = pairs[:250 if quick else 3000]
        # every limit class 1..255 on tiny positions where deep iterations are cheap
        deep_lims = [1, 2, 3, 5, 8, 31, 32, 33, 34, 64, 128, 254, 255] if not quick else [1, 5, 32, 33, 34, 64, 255]
        deep = []
        for f in [srch.KVK, "8/8/8/8/8/1k6/8/K7 b - - 0 1"] + ([srch.KPK] if not quick else []):
            for a in deep_lims:
                deep.append([srch.step(f, [], limit=a, watch_ms=20000)])
            deep.append([srch.step(f, [], limit=255, watch_ms=20000), srch.step(f, [], limit=33, watch_ms=20000), srch.step(f, [], limit=1, watch_ms=20000)])
        # unlimited searches left running (watchdog = the moment somebody finally says stop)
        unl = [[srch.step(f, [], limit=None, watch_ms=(1500 if quick else 20000), tag="unlimited")] for f in srch.TINY + [START, KIWI]]
        unl.append([srch.step(srch.KVK, [], limit=None, watch_ms=20000), srch.step(srch.KVK, [], limit=None, watch_ms=20000),
                    srch.step(srch.KVK, [], limit=3, watch_ms=20000)])
        # the deep and the unlimited runs once more on the checked build: "without crashing or corrupting state" - a silent
        # overrun of a fixed-capacity buffer is invisible in the release build and a panic there
        # lines that never branch (TLC family FORCED): depth N must end at depth N there as well
        ff = families(run, [("FORCED", 1)], seed, "C08forced")
        forced = [l.strip() for l in open(ff[0]) if l.strip()]
        forced = rnd.sample(forced, min(len(forced), 16 if quick else 120))
        fl = [[srch.step(f, [], limit=dd, watch_ms=20000)] for f in forced for dd in (2, 3, 5)]
        vhc = core.build_harness("checked")
        srch.run_histories(run, vh, "C08", deep[:: (2 if quick else 1)] + unl[:4] + fl[:: (2 if quick else 1)], {"C08"}, "checked-deep", profile_vh=vhc)
        return [("scn", hs), ("limitpairs", pairs), ("deeplimits", deep), ("unlimited", unl), ("forcedlines", fl)]
    search_check("C08", {"C08"}, tier, seed, build)


@check("C10")
def c10(tier, seed):
    def build(run, vh, quick, rnd):
        srch.pvs_table(run, ["shared"] if quick else ["shared", "deep"], "C10")
        classes = srch.solver_positions(run, seed, 250 if quick else 40, True, "C10")
        m1 = classes.get("m1", [])
        m2 = classes.get("m2", [])
        if quick:
            m1 = rnd.sample(m1, min(len(m1), 25))
            m2 = rnd.sample(m2, min(len(m2), 100))
        dead = classes.get("mate", []) + classes.get("stale", [])
        extra_m1 = ["6k1/5ppp/8/8/8/8/8/R5K1 w - - 0 1", "r1bqkb1r/pppp1ppp/2n2n2/4p2Q/2B1P3/8/PPPP1PPP/RNB1K1NR w KQkq - 4 4",
                    "6k1/8/8/8/8/8/r4PPP/6K1 b - - 0 1"]
        extra_m2 = ["7k/8/5K2/8/8/8/8/6R1 w - - 0 1", "r2qkb1r/pp2nppp/3p4/2pNN1B1/2BnP3/3P4/PPP2PPP/R2bK2R w KQkq - 1 1"]
        extra_dead = ["7k/5Q2/6K1/8/8/8/8/8 b - - 0 1", "R5k1/5ppp/8/8/8/8/8/6K1 b - - 0 1", "rnb1kbnr/pppp1ppp/8/4p3/6Pq/5P2/PPPPP2P/RNBQKBNR w KQkq - 1 3"]
        hs = []
        for f in m1 + extra_m1:
            for d in (3, 4, 5):
                hs.append([srch.step(f, [], limit=d, mate=1)])
            hs.append([srch.step(f, [], limit=None, mate=1, watch_ms=8000)])
        for f in m2 + (extra_m2[:1] if quick else extra_m2):
            for d in (5, 6):
                hs.append([srch.step(f, [], limit=d, mate=2, watch_ms=30000)])
            hs.append([srch.step(f, [], limit=None, mate=2, watch_ms=30000)])
        for f in dead + extra_dead:
            for d in (1, 3, None):
                hs.append([srch.step(f, [], limit=d)])
        run.cov["solver_classes"] = {k: len(v) for k, v in classes.items() if k != "_finishing"}
        run.tt_pool = m1[:10] + m2[:30 if quick else 200] + list(srch.TINY)
        return [("mates", hs)]

    def table_soundness(run, quick, rnd, vh):
        # design-level binding of PvsTable.tla: the entries the real search leaves in its table, judged by TLC against the
        # exhaustive value of their nodes (RefSearch!TT).  Unsound entries are reported as notes (model drift), not verdicts.
        d = game.trace_dir("C10tt")
        cases = [{"fen": f, "pre": [], "d": dd, "tt": True, "seed": 1} for f in getattr(run, "tt_pool", []) for dd in (3, 4)]
        chunks = [cases[i::core.NPROC] for i in range(core.NPROC)]

        def mk(ic):
            i, chunk = ic
            script = os.path.join(d, "tt-%d.json" % i)
            json.dump({"cases": chunk}, open(script, "w"))
            out = os.path.join(d, "tt-%d.ndjson" % i)
            core.sh([vh, "tree", "--script", script, "--out", out], timeout=3600)
            return out
        outs = core.pmap(mk, [(i, c) for i, c in enumerate(chunks) if c])
        entries = 0
        trees = 0
        unsound = []
        for out, res in core.pmap(lambda o: (o, core.tlc_trace(o, spec="RefSearch", heap="6g")), outs):
            run.cov["traces_validated_against_impl"] += 1
            run.cov["events_validated"] += res["events"]
            for l in open(out):
                e = json.loads(l)
                if "nodes" in e:
                    trees += 1
                    entries += e.get("entries", 0)
            unsound += [f for f in res["fails"] if f["p"] == "DRIFT"]
        run.cov["table_soundness"] = {"trees": trees, "entries_found_at_interior_nodes": entries, "unsound": len(unsound)}
        for f in unsound[:3]:
            note = "model-drift spec=PvsTable: " + f["w"] + " " + json.dumps(f["d"])[:300]
            run.cov["model_drift"].append(note)
            run.notes.append(note)
        shutil.rmtree(d, ignore_errors=True)
    search_check("C10", {"C10"}, tier, seed, build, extra=table_soundness)


@check("C18")
def c18(tier, seed):
    import random

    def build(run, vh, quick, rnd):
        srch.searchctl(run, 2, False if quick else True, "C18")
        classes, pools, flat, games = search_pools(run, vh, "C18", seed, quick)
        depths = [1, 2, 3, 4] if quick else [1, 2, 3, 4, 5]
        pos = rnd.sample(flat, min(len(flat), 20 if quick else 100)) + [(f, []) for f in gen.read_roots()]
        th = srch.table_histories(rnd, pos, games[:6 if quick else 30], depths, 250 if quick else 2500)
        # long games on one table: the line is rebuilt by walking cached moves hash to hash
        long = []
        for g in games[:3 if quick else 15]:
            long.append([srch.step(f, p, limit=rnd.choice(depths), tag="long") for f, p in g[:12 if quick else 40]])
        # other games on the same table, then back
        mixed = []
        for _ in range(40 if quick else 400):
            a, b = rnd.choice(pos), rnd.choice(pos)
            mixed.append([srch.step(a[0], a[1], limit=rnd.choice(depths)), srch.step(b[0], b[1], limit=rnd.choice(depths)),
                          srch.step(a[0], a[1], limit=rnd.choice(depths)), srch.step(a[0], a[1], limit=None, stop=rnd.randrange(50, 5000))])
        # roots with a single legal reply whose entry was cached by an earlier search of an ancestor: forced lines of
        # perpetual-check shuttles (TLC family members), searched ply after ply on one table; and successors of
        # K+Q/R v K positions (many checks there leave a single reply)
        mf = families(run, [("MATES", 60 if quick else 6)], seed, "C18cyc")
        cyc_out = os.path.join(game.TRACES, "C18", "cycles.ndjson")
        core.sh([vh, "cycles", "--fens", mf[0], "--out", cyc_out, "--max", "40" if quick else "400"], timeout=600)
        forced = []
        for l in open(cyc_out):
            c = json.loads(l)
            for k in (3, 4, 7, 8):
                forced.append([srch.step(c["fen"], c["pre"][:k], limit=rnd.choice([2, 3, 4]), tag="ancestor"),
                               srch.step(c["fen"], c["pre"][:k + 1], limit=rnd.choice([1, 2, 3]), tag="forced-reply-root"),
                               srch.step(c["fen"], c["pre"][:k + 2] if k + 2 <= len(c["pre"]) else c["pre"], limit=2, tag="next")])
        mates = [l.strip() for l in open(mf[0]) if l.strip()]
        for f in rnd.sample(mates, min(len(mates), 40 if quick else 300)):
            for j in range(4):
                forced.append([srch.step(f, [], limit=rnd.choice([3, 4]), tag="ancestor"), srch.step(f, [], limit=rnd.choice([1, 2]), child=j, tag="successor")])
        return [("tablehist", th), ("longgames", long), ("mixed", mixed), ("forced-lines", forced)]
    search_check_pv("C18", {"C18"}, tier, seed, build)


@check("C19")
def c19(tier, seed):
    def build(run, vh, quick, rnd):
        srch.searchctl(run, 2, False, "C19")
        if vh is not None:
            classes, pools, flat, games = search_pools(run, vh, "C19", seed, quick)
        else:
            flat = []
        pos = rnd.sample(flat, min(len(flat), 10 if quick else 40)) + [(f, []) for f in gen.read_roots()[:: (4 if quick else 1)]]
        depths = [1, 2, 3, 4] if quick else [1, 2, 3, 4, 5]
        hs = []
        for f, p in pos:
            h = []
            for d in depths:
                h.append(srch.step(f, p, limit=d, fresh=True, tag="fresh"))
            # the same searches again, each time after a different history ending in a reset
            for d in depths:
                junk = rnd.choice(pos)
                h.append(srch.step(junk[0], junk[1], limit=rnd.choice(depths), tag="junk"))
                h.append(srch.step(f, p, limit=rnd.choice(depths), tag="junk-same-position"))
                h.append(srch.step(f, p, limit=None, stop=rnd.randrange(0, 3000), tag="junk-aborted"))
                h.append(srch.step(f, p, limit=d, fresh=True, tag="after-reset"))
            # shuffled order of depths, fresh each time
            for d in rnd.sample(depths, len(depths)):
                h.append(srch.step(f, p, limit=d, fresh=True, tag="fresh-again"))
            hs.append(h)
        # the same statement at the UCI level, on the real binary: a fresh process vs. arbitrary histories
        # (timed searches that end early, stopped searches, other positions) followed by ucinewgame
        binary = core.build_bin(False)
        targets = [("position fen " + KIWI, 6), ("position startpos", 7), ("position startpos moves e2e4 e7e5 g1f3", 6),
                   ("position fen 8/2p5/3p4/KP5r/1R3p1k/8/4P1P1/8 w - - 0 1", 7)]
        if not quick:
            targets += [("position fen " + POS4, 5), ("position fen " + POS5, 5), ("position fen " + KIWI, 7), ("position startpos", 8)]
        junk_gos = ["go movetime 400 depth 1", "go movetime 900 depth 2", "go depth 3", "go movetime 30", "go wtime 60000 btime 60000 winc 0 binc 0 depth 1",
                    "go depth 6", "go movetime 600"]
        groups = []
        for ti, (posn, dep) in enumerate(targets):
            g = []
            base = [{"send": posn}, {"send": "go depth %d" % dep}, {"waitbest": 60}, {"quit": True}]
            g.append({"id": "fresh-%d" % ti, "binary": binary, "steps": base})
            g.append({"id": "fresh-bigenv-%d" % ti, "binary": binary, "env": {"VERIF_PADDING": "x" * 20000}, "steps": base})
            for k in range(3 if quick else 8):
                steps = []
                for _ in range(rnd.randrange(1, 4)):
                    jp = rnd.choice([t[0] for t in targets] + POSITIONS[:2])
                    jg = rnd.choice(junk_gos)
                    steps += [{"send": jp}, {"send": jg}]
                    if rnd.random() < 0.3:
                        steps += [{"send": "stop"}]
                    steps += [{"waitbest": 20}]
                steps += [{"send": "ucinewgame"}, {"send": posn}, {"send": "go depth %d" % dep}, {"waitbest": 60}, {"quit": True}]
                g.append({"id": "after-history-%d-%d" % (ti, k), "binary": binary, "steps": steps})
            # a deep search of another position before the reset: whatever it learnt (history counters, killers, table) must be gone
            for k, (jp, jd) in enumerate([(targets[(ti + 1) % len(targets)][0], 7), ("position fen r1bq1rk1/pp2ppbp/2np1np1/8/3NP3/2N1BP2/PPPQ2PP/R3KB1R w KQ - 0 1", 7)]):
                g.append({"id": "after-deep-search-%d-%d" % (ti, k), "binary": binary, "steps": [
                    {"send": jp}, {"send": "go depth %d" % jd}, {"waitbest": 90},
                    {"send": "ucinewgame"}, {"send": posn}, {"send": "go depth %d" % dep}, {"waitbest": 60}, {"quit": True}]})
            # the scenario named in the statement: "whatever was searched before the reset" includes a timer still asleep
            g.append({"id": "stale-timer-%d" % ti, "binary": binary, "steps": [
                {"send": "position startpos"}, {"send": "go movetime 500 depth 1"}, {"waitbest": 20},
                {"send": "ucinewgame"}, {"send": posn}, {"send": "go depth %d" % dep}, {"waitbest": 60}, {"quit": True}]})
            groups.append(g)
        uci_outs, _ = run_sessions(run, "C19", groups, {"C19"}, "ucirepro")
        run.cov["uci_sessions"] = sum(len(g) for g in groups)
        run.cov["evaluations"] += sum(len(g) for g in groups)
        run.sample({"uci_group": [{"id": sd["id"], "steps": [st.get("send", st) for st in sd["steps"]][:10]} for sd in groups[0][:3]]})
        return [("repro", hs)]
    search_check("C19", {"C19"}, tier, seed, build)


# --------------------------------------------------------------------------- C09

@check("C09")
def c09(tier, seed):
    import random
    run = core.Run("C09", tier, seed)
    vh = prepare()
    quick = tier == "quick"
    rnd = random.Random(seed)
    d = game.trace_dir("C09")
    # design level: the PVS / fail-hard / depth-1 algorithm equals plain negamax on every tree of the bounded shapes
    # (the ...T shapes put no-legal-move terminals - the one fail-soft return of the search - among the children: InvNodeT)
    for shape in (["flat5", "1x4x2", "1x4xT"] if quick else ["flat5", "4x2", "2x4", "1x4x2", "2x4x1", "flat5_v5", "1x4xT", "3xT", "5xT"]):
        r = core.tlc_mc("Pvs", "mc/Pvs_%s.cfg" % shape, workers=8, tag="c09-pvs-" + shape)
        if r["violated"]:
            raise core.ToolError("Pvs.tla: the transcribed algorithm violates %s on shape %s" % (r["violated"], shape))
        r["output"] = ""
        run.add_mc(r, {"shape": shape, "leaf_values": "-2..2" if shape.endswith("v5") else "-1..1",
                       "terminals": "stalemate 0 / mated -90, window-independent" if shape.endswith("T") else "none"})
    flat, games = srch.game_positions(vh, "C09", seed, 8 if quick else 40, 120, 6)
    fams = families(run, [("KXK", 9000 if quick else 900), ("PROMO", 3000 if quick else 300), ("EP", 40000 if quick else 4000)], seed, "C09")
    fam_pos = []
    for f in fams:
        fam_pos += [(l.strip(), []) for l in open(f) if l.strip()]
    late = [x for x in flat if len(x[1]) >= 60]
    early = [x for x in flat if len(x[1]) < 60]
    cases = []

    def add(pos, depths, orders):
        for f, p in pos:
            for dd in depths:
                cases.append({"fen": f, "pre": p, "d": dd, "orders": orders, "seed": rnd.randrange(1 << 30)})
    # positions where mates and stalemates sit close to the root (TLC-classified K+Q/R v K rim family): the terminal rule
    solved = srch.solver_positions(run, seed, 500 if quick else 50, False, "C09")
    term = [f for k, v in solved.items() if k != "_finishing" for f in v]
    add([(f, []) for f in rnd.sample(term, min(len(term), 60 if quick else 500))], [2, 3, 4], 3)
    add([(f, []) for f in srch.TINY], [1, 2, 3, 4], 4)
    add([(f, []) for f in gen.read_roots()], [1, 2], 3)
    add(rnd.sample(fam_pos, min(len(fam_pos), 120 if quick else 600)), [1, 2, 3] if quick else [1, 2, 3, 4], 3)
    add(rnd.sample(late, min(len(late), 40 if quick else 250)), [1, 2, 3], 3)
    add(rnd.sample(early, min(len(early), 25 if quick else 150)), [1, 2], 3)
    # window level: the windowed search as an interior node under arbitrary windows (null windows and wide ones around the
    # static and the searched value, up to +-2600), on positions and on the positions after illegal pseudo-moves (king en prise)

    def addwin(pos, depths, illegal, nwin=10):
        for f, p in pos:
            for dd in depths:
                cases.append({"fen": f, "pre": p, "d": dd, "win": nwin, "illegal": illegal, "seed": rnd.randrange(1 << 30)})
    nwin_cases = len(cases)
    addwin([(f, []) for f in rnd.sample(term, min(len(term), 40 if quick else 300))], [0, 1, 2, 3], False)
    addwin([(f, []) for f in rnd.sample(term, min(len(term), 40 if quick else 300))], [0, 1, 2], True)
    addwin([(f, []) for f in srch.TINY], [0, 1, 2, 3], False)
    addwin([(f, []) for f in gen.read_roots()], [0, 1, 2], False)
    addwin([(f, []) for f in gen.read_roots()], [0, 1], True)
    addwin(rnd.sample(fam_pos, min(len(fam_pos), 60 if quick else 400)), [0, 1, 2], False)
    addwin(rnd.sample(fam_pos, min(len(fam_pos), 60 if quick else 400)), [0, 1, 2], True)
    addwin(rnd.sample(late, min(len(late), 40 if quick else 250)), [0, 1, 2], False)
    addwin(rnd.sample(late, min(len(late), 40 if quick else 250)), [0, 1, 2], True)
    addwin(rnd.sample(early, min(len(early), 25 if quick else 150)), [0, 1], True)
    nwin_cases = len(cases) - nwin_cases
    rnd.shuffle(cases)
    chunks = [cases[i::core.NPROC] for i in range(core.NPROC)]

    def mk(ic):
        i, chunk = ic
        script = os.path.join(d, "cases-%d.json" % i)
        json.dump({"cases": chunk}, open(script, "w"))
        out = os.path.join(d, "trees-%d.ndjson" % i)
        p = core.sh([vh, "tree", "--script", script, "--out", out], check=False, timeout=3600)
        if p.returncode != 0:
            raise core.ToolError("tree driver died: " + p.stderr[-500:])
        return out
    outs = core.pmap(mk, [(i, c) for i, c in enumerate(chunks) if c])

    def judge(out):
        return out, core.tlc_trace(out, spec="RefSearch", heap="6g")
    trees = 0
    nodes = 0
    skipped = 0
    wruns = 0
    nohook = 0
    keys = set()
    for out, res in core.pmap(judge, outs):
        run.cov["traces_validated_against_impl"] += 1
        run.cov["events_validated"] += res["events"]
        evs = [json.loads(l) for l in open(out)]
        for e in evs:
            if "nodes" in e:
                if e["ev"] == "win":
                    wruns += len(e["runs"])
                trees += 1
                nodes += e["n"]
                keys.add((e["ev"], e.get("via", ""), e["fen"], tuple(e["pre"]), e["d"]))
                if len(run.cov["samples"]) < 4 and e["n"] > 50:
                    run.sample({"fen": e["fen"], "prefix": e["pre"], "depth": e["d"], "tree_nodes": e["n"], "engine_runs": e["runs"]})
            else:
                skipped += 1
                if e.get("skip") == "window hook not built":
                    nohook += 1
        for f in res["fails"]:
            if f["p"] == "HARNESS":
                run.notes.append("tree skipped: " + f["w"])
            elif f["p"] in ("C09", "PANIC"):
                dd = f["d"] or {}
                case = {"fen": dd.get("fen"), "pre": dd.get("pre", []), "d": dd.get("d"), "orders": 4, "seed": seed}
                if "alpha" in dd:
                    case.update({"win": dd.get("win"), "illegal": dd.get("illegal"), "seed": dd.get("seed")})
                run.violation(f, {"driver": "tree", "case": case})
    # the reference evaluation is itself a TLC run: count its states (one per tree)
    run.cov["states"] += run.cov["events_validated"]
    run.cov["transitions"] += run.cov["events_validated"]
    run.cov["evaluations"] = trees
    run.cov["distinct_nontrivial"] = len(keys)
    run.cov["tree_nodes_evaluated_by_tlc"] = nodes
    run.cov["cases_skipped_too_large_or_trivial"] = skipped
    run.cov["window_cases"] = nwin_cases
    run.cov["window_searches_judged"] = wruns
    if nohook:
        run.notes.append("the window-search hook (search::verif_window_search) does not compile against this tree; %d window cases were "
                         "skipped and C09 was decided on root searches only - adapt the hook to the new signature" % nohook)
    run.cov["rule"] = ("one case = (position, depth): the full tree is dumped from the real engine (<= 60000 nodes, else skipped), the real "
                       "search is run table-less with a fresh and with randomly pre-filled history tables (3-4 ordering states), and TLC "
                       "evaluates RefSearch!RefValue on the tree; trees with a moveless capture-extension node and roots with <= 1 move are "
                       "skipped; window cases call the windowed search as an interior node (depth 0-3) with ~10 windows each - null and wide, "
                       "around the static and the searched value up to +-2600 - on the position or on the positions after each illegal "
                       "pseudo-move (king en prise), judged by RefSearch!Contract; distinct = distinct (kind, position, depth)")
    run.assumptions += ["numeric equality of two pure functions: TLC is the independent evaluator of the transcribed reference; depth <= 4 on sparse "
                        "material, <= 2 on rich positions", "mate-range scores are compared after clamping to +-15000"]
    shutil.rmtree(d, ignore_errors=True)
    run.finish()


def replay_tree(prop, obj, path, vh):
    d = game.trace_dir(prop + "-replay")
    script = os.path.join(d, "case.json")
    json.dump({"cases": [obj["case"]]}, open(script, "w"))
    out = os.path.join(d, "tree.ndjson")
    core.sh([vh, "tree", "--script", script, "--out", out])
    res = core.tlc_trace(out, spec="RefSearch", heap="6g")
    bad = [f for f in res["fails"] if f["p"] in (prop, "PANIC")]
    for f in bad:
        print("VIOLATION property=%s replay=%s" % (prop, path))
        print("  " + json.dumps({"w": f["w"], "d": f["d"]})[:600])
    print("replayed: %s" % ("property violated" if bad else "no violation"))
    sys.exit(1 if bad else 0)


def replay_history(prop, obj, path, vh):
    d = game.trace_dir(prop + "-replay")
    script = os.path.join(d, "hist.json")
    json.dump({"histories": [obj["history"]]}, open(script, "w"))
    out = os.path.join(d, "hist.ndjson")
    core.sh([vh, "search", "--script", script, "--out", out], check=False)
    res = core.tlc_trace(out, spec="TraceSearch", env={"PVCHECK": "1"})
    bad = [f for f in res["fails"] if f["p"] in (prop, "PANIC")]
    for f in bad:
        print("VIOLATION property=%s replay=%s" % (prop, path))
        print("  " + json.dumps({"w": f["w"], "d": f["d"]})[:600])
    print("replayed %d searches: %s" % (res["events"], "property violated" if bad else "no violation"))
    sys.exit(1 if bad else 0)


REPLAYERS["tree"] = replay_tree
REPLAYERS["search-history"] = replay_history


# --------------------------------------------------------------------------- session layer (real binary over UCI)

import session as sessmod  # noqa: E402

SESSION_ASSUME = ["transcripts come from the real binary built from /repo with the hooks on; main-thread replies are delimited by isready fences",
                  "timing judgements use the driver's own clock with a tolerance of 2.5 s (detects 'never fires', not jitter)",
                  "a GUI issues the next go only after the previous one was answered (UCI discipline); all other commands at any time"]


def run_sessions(run, prop, sessions, judged, label, par=core.NPROC):
    """sessions: list of dicts {id, binary, env, steps}.  Runs them (in parallel), writes one trace per
    worker, lets TraceSession.tla judge.  Returns list of (trace, events)."""
    d = os.path.join(game.TRACES, prop)
    os.makedirs(d, exist_ok=True)
    if sessions and isinstance(sessions[0], list):
        chunks = sessions            # groups that must share one trace (one monitor memory)
    else:
        chunks = [sessions[i::par] for i in range(par)]

    def mk(ic):
        i, chunk = ic
        out = os.path.join(d, "%s-%d.ndjson" % (label, i))
        index = []
        with open(out, "w") as f:
            n = 0
            for sdef in chunk:
                evs = [{"ev": "session", "id": sdef["id"]}] + sessmod.run(sdef["binary"], sdef["steps"], env=sdef.get("env"))
                index.append((n + 1, n + len(evs), sdef, [e for e in evs if e["ev"] not in ("pv", "depth", "score")][:400]))
                n += len(evs)
                for e in evs:
                    f.write(json.dumps(e) + "\n")
        return out, index
    outs = core.pmap(mk, [(i, c) for i, c in enumerate(chunks) if c], n=par)

    def judge(oi):
        return oi, core.tlc_trace(oi[0], spec="TraceSession")
    total = 0
    for (out, index), res in core.pmap(judge, outs):
        run.cov["traces_validated_against_impl"] += 1
        run.cov["events_validated"] += res["events"]
        total += res["events"]
        for f in res["fails"]:
            if f["p"] in judged or f["p"] == "PANIC":
                hit = next(((sd, obs, a) for a, b, sd, obs in index if a <= f["line"] <= b), None)
                rp = {"driver": "uci-session", "session": None}
                if hit:
                    sdef, observed, first = hit
                    rp["session"] = {"id": sdef["id"], "env": sdef.get("env", {}), "steps": sdef["steps"], "checked_build": "checked" in sdef["binary"]}
                    rp["event_index_in_session"] = f["line"] - first + 1
                    rp["observed_events"] = observed          # the transcript as the driver saw it (info lines left out)
                run.violation(f, rp)
    return outs, total


def replay_session(prop, obj, path, vh):
    sd = obj["session"]
    binary = core.build_bin(bool(sd.get("checked_build")))
    d = game.trace_dir(prop + "-replay")
    out = os.path.join(d, "session.ndjson")
    bad = []
    for attempt in range(3):
        evs = [{"ev": "session", "id": sd["id"]}] + sessmod.run(binary, sd["steps"], env=sd.get("env"))
        with open(out, "w") as f:
            for e in evs:
                f.write(json.dumps(e) + "\n")
        res = core.tlc_trace(out, spec="TraceSession")
        bad = [f for f in res["fails"] if f["p"] in (prop, "PANIC")]
        if bad:
            break
    for f in bad:
        print("VIOLATION property=%s replay=%s" % (prop, path))
        print("  " + json.dumps({"w": f["w"], "d": f["d"]})[:600])
    print("replayed session %s: %s" % (sd["id"], "property violated" if bad else "no violation in 3 attempts"))
    sys.exit(1 if bad else 0)


REPLAYERS["uci-session"] = replay_session


def tlaps(run, module):
    """Check a TLAPS proof module (design-level lemma over all naturals; a failure is a note, never a verdict)."""
    pd = os.path.join(core.BUILD, "tlaps-" + module)
    shutil.rmtree(pd, ignore_errors=True)
    os.makedirs(pd, exist_ok=True)
    shutil.copy(os.path.join(core.SPEC, module + ".tla"), pd)
    try:
        pp = core.sh(["tlapm", "--threads", "8", module + ".tla"], cwd=pd, check=False, timeout=600)
        text = pp.stdout + pp.stderr
    except Exception as ex:
        text = str(ex)
    mm = re.search(r"All (\d+) obligations? proved", text)
    if mm:
        run.cov.setdefault("tlaps_obligations_proved", {})[module] = int(mm.group(1))
    else:
        run.notes.append("tlapm did not prove %s.tla (design-level lemma; not a verdict): %s" % (module, text[-300:].replace("\n", " ")))


@check("C13")
def c13(tier, seed):
    import random
    run = core.Run("C13", tier, seed)
    prepare(optional=True, run=run)
    quick = tier == "quick"
    rnd = random.Random(seed)
    binary = core.build_bin(False)
    checked = core.build_bin(True)
    game.trace_dir("C13")
    # (M) the boundary grid, enumerated (and the engine's formula checked against Allowed) by TLC
    res = core.tlc_mc("TimeBudget", "mc/TimeBudget.cfg", workers=4, tag="c13-grid")
    if res["violated"]:
        raise core.ToolError("TimeBudget.tla: design-level formula violates %s" % res["violated"])
    grid = [json.loads(core._unescape(m)) for m in re.findall(r'^<<"GRID", "(.*)">>$', res["output"], re.M)]
    res["output"] = ""
    run.add_mc(res, {"grid_points": len(grid)})
    # the same lemma for ALL natural clocks and increments: TLAPS proof of spec/TimeBudgetProof.tla
    tlaps(run, "TimeBudgetProof")
    if quick:
        rnd.shuffle(grid)
        pass
    POS = {"w": "position startpos", "b": "position startpos moves e2e4"}

    def go_of(g):
        if g["kind"] == "movetime":
            return "go movetime %d" % g["mt"]
        if g["kind"] == "both":
            w, b = (g["own"], g["opp"]) if g["side"] == "w" else (g["opp"], g["own"])
            wi, bi = (g["inc"], g["oinc"]) if g["side"] == "w" else (g["oinc"], g["inc"])
            return "go wtime %d btime %d winc %d binc %d movetime %d" % (w, b, wi, bi, g["mt"])
        w, b = (g["own"], g["opp"]) if g["side"] == "w" else (g["opp"], g["own"])
        wi, bi = (g["inc"], g["oinc"]) if g["side"] == "w" else (g["oinc"], g["inc"])
        return "go wtime %d btime %d winc %d binc %d" % (w, b, wi, bi)
    # one engine process handles a batch of grid points: position, go, stop
    sessions = []
    batch = 40
    for bname, b in (("release", binary), ("checked", checked)):
        pts = grid if bname == "release" else grid[:: (2 if quick else 1)]
        for k in range(0, len(pts), batch):
            steps = []
            for g in pts[k:k + batch]:
                steps += [{"send": POS[g["side"]]}, {"send": go_of(g)}, {"send": "stop"}, {"waitbest": 6}]
            steps.append({"quit": True})
            sessions.append({"id": "grid-%s-%d" % (bname, k), "binary": b, "steps": steps})
    # "announced within it": small budgets, no stop; the engine must answer by itself
    timed = []
    for side in ("w", "b"):
        timed.append({"id": "timed-both-%s" % side, "binary": binary,
                      "steps": [{"send": POS[side]}, {"send": "go wtime 300000 btime 300000 winc 0 binc 0 movetime 150"}, {"waitbest": 8}, {"quit": True}]})
    for mt in [0, 1, 4, 5, 6, 20, 50, 120, 300]:
        for side in ("w", "b"):
            timed.append({"id": "timed-movetime-%d-%s" % (mt, side), "binary": binary,
                          "steps": [{"send": POS[side]}, {"send": "go movetime %d" % mt}, {"waitbest": 6}, {"quit": True}]})
    for clock, inc in [(0, 0), (100, 0), (7400, 0), (7600, 0), (9000, 0), (20000, 0), (1000, 200), (50, 400), (0, 151), (100, 10000)]:
        for side in ("w", "b"):
            w = "go wtime %d btime %d winc %d binc %d" % ((clock, 5000, inc, 0) if side == "w" else (5000, clock, 0, inc))
            timed.append({"id": "timed-clock-%d-%d-%s" % (clock, inc, side), "binary": binary,
                          "steps": [{"send": POS[side]}, {"send": w}, {"waitbest": 8}, {"quit": True}]})
    outs, n1 = run_sessions(run, "C13", sessions, {"C13"}, "grid")
    outs2, n2 = run_sessions(run, "C13", timed, {"C13"}, "timed", par=6)
    gos = 0
    seen = set()
    for out, _ in outs + outs2:
        for l in open(out):
            e = json.loads(l)
            if e.get("ev") == "cmd" and e.get("kind") == "go":
                gos += 1
                seen.add(e["text"])
                if len(run.cov["samples"]) < 5 and ("infotime" in e) and gos % 97 == 1:
                    run.sample({"cmd": e["text"], "info_time": e.get("infotime"), "overflow": e.get("infotime_overflow")})
    run.cov["evaluations"] = gos
    run.cov["distinct_nontrivial"] = len(seen)
    run.cov["rule"] = ("one case = one go command with clocks/increments or a move time, from the TLC-enumerated boundary grid (both sides to "
                       "move, release and checked build); TLC requires 0 <= info time <= time remaining for the mover and no overflow; small "
                       "budgets are additionally left to expire and the bestmove must arrive within budget + tolerance; distinct = distinct go texts")
    run.assumptions += SESSION_ASSUME + ["clock values are limited to 2^31-1 ms (TLC integers)"]
    shutil.rmtree(os.path.join(game.TRACES, "C13"), ignore_errors=True)
    run.finish()


WINDOWS = ["none", "before_raise", "search_start", "after_bestmove", "timer_wake"]
POSITIONS = ["position startpos", "position startpos moves e2e4 e7e5", "position fen 8/8/8/4k3/8/8/4K3/8 w - - 0 1",
             "position fen r3k2r/p1ppqpb1/bn2pnp1/3PN3/1p2P3/2N2Q1p/PPPBBPPP/R3K2R w KQkq - 0 1 moves e1g1",
             "position fen 7k/5Q2/6K1/8/8/8/8/8 b - - 0 1", "position fen 8/8/8/8/8/5k2/8/6QK b - - 0 1"]


def concrete_session(abstract, window, rnd, binary, sid, stretch_ms=120):
    """One TLC-enumerated GUI command history (Uci.tla sentlog) as a script for the real binary.
    q = TRUE means the GUI had seen an answer for every go when it sent the command: the driver
    waits for the outstanding bestmoves first; q = FALSE: it sends at once."""
    steps = [{"send": rnd.choice(POSITIONS)}]
    pending_inf = False
    for c in abstract:
        if c["q"] and not pending_inf:
            steps.append({"waitbest": 8})
        k = c["c"]
        if k == "position":
            steps.append({"send": rnd.choice(POSITIONS), "afterbest": bool(c["q"])})
        elif k == "go_depth":
            steps.append({"send": "go depth %d" % rnd.choice([1, 2, 3]), "afterbest": bool(c["q"])})
        elif k == "go_time":
            steps.append({"send": "go movetime %d" % rnd.choice([0, 3, 6, 25, 60]), "afterbest": bool(c["q"])})
        elif k == "go_inf":
            steps.append({"send": "go infinite", "afterbest": bool(c["q"])})
            pending_inf = True
        elif k == "stop":
            steps.append({"send": "stop"})
            pending_inf = False
        elif k == "wait":
            steps.append({"send": "wait"})
        else:
            steps.append({"send": k})
        if k == "ucinewgame":
            pending_inf = False
    env = {} if window == "none" else {"VERIF_SCHED_" + window: str(stretch_ms)}
    return {"id": sid, "binary": binary, "env": env, "steps": steps}


def random_session(rnd, binary, sid, n, window):
    """long randomized session obeying the go discipline; delays 0-20 ms"""
    steps = []
    pending = False
    infinite = False
    have_pos = False
    for _ in range(n):
        r = rnd.random()
        if r < 0.22:
            steps.append({"send": rnd.choice(POSITIONS), "afterbest": not pending})
            have_pos = have_pos or not pending
        elif r < 0.45 and not pending:
            if not have_pos:
                steps.append({"send": rnd.choice(POSITIONS)})
            g = rnd.choice(["go depth 1", "go depth 2", "go depth 3", "go movetime 0", "go movetime 7", "go movetime 30", "go infinite",
                            "go wtime 300 btime 300 winc 0 binc 0", "go wtime 9000 btime 9000 winc 10 binc 10"])
            steps.append({"send": g, "afterbest": True})
            pending = True
            infinite = g == "go infinite"
            have_pos = False
        elif r < 0.60:
            steps.append({"send": "isready"})
        elif r < 0.72 and pending:
            steps.append({"send": "stop"})
            steps.append({"waitbest": 8})
            pending = False
        elif r < 0.80 and pending and not infinite:
            steps.append({"waitbest": 8})
            pending = False
        elif r < 0.84:
            steps.append({"send": "ucinewgame"})
            if pending:
                steps.append({"waitbest": 8})
            pending = False
            have_pos = False
        elif r < 0.90:
            steps.append({"send": "show"})
        elif r < 0.93 and pending and not infinite:
            steps.append({"send": "wait"})
            steps.append({"waitbest": 8})
            pending = False
        else:
            steps.append({"sleep": rnd.choice([0, 0.001, 0.005, 0.02])})
    steps.append({"quit": True}) if rnd.random() < 0.5 else None
    env = {} if window == "none" else {"VERIF_SCHED_" + window: str(rnd.choice([5, 40, 120]))}
    return {"id": sid, "binary": binary, "env": env, "steps": steps}


def uci_model(run, maxcmds, tag, liveness=True):
    cfg = os.path.join(core.BUILD, "cfg", "Uci_%s.cfg" % tag)
    os.makedirs(os.path.dirname(cfg), exist_ok=True)
    with open(cfg, "w") as f:
        f.write("SPECIFICATION Spec\nCONSTANTS NGO = 2  MAXCMDS = %d  RaiseFirst = TRUE  ClearFirst = TRUE  TakeGame = TRUE\nINVARIANT AtMostOneBest Honoured NoPanic RightPosition\n%sCHECK_DEADLOCK FALSE\n"
                % (maxcmds, "PROPERTY BoundedGoAnswered ReadyAnswered\n" if liveness else ""))
    res = core.tlc_mc("Uci", cfg, workers=14, tag="uci-" + tag, heap="16g", coverage=True)
    cov = core.coverage_counts(res["output"])
    if res["violated"]:
        raise core.ToolError("Uci.tla (repaired order) violates %s - design-level model out of date?" % res["violated"])
    res["output"] = ""
    run.add_mc(res, {"NGO": 2, "MAXCMDS": maxcmds, "liveness": liveness,
                     "labels_taken": sorted(k for k, v in cov.items() if v[0] > 0 and len(k) <= 3)})


def uci_sessions(run, tag):
    res = core.tlc_mc("Uci", "mc/Uci_sessions.cfg", workers=14, tag="uci-sess-" + tag, heap="16g")
    ss = sorted(set(re.findall(r'^<<"SESSION", "(.*)">>$', res["output"], re.M)))
    res["output"] = ""
    run.add_mc(res, {"sessions_emitted": len(ss)})
    return [json.loads(core._unescape(x)) for x in ss]


@check("C14")
def c14(tier, seed):
    import random
    run = core.Run("C14", tier, seed)
    prepare(optional=True, run=run)
    quick = tier == "quick"
    rnd = random.Random(seed)
    binary = core.build_bin(False)
    checked = core.build_bin(True)
    game.trace_dir("C14")
    # (M) all interleavings of stdin loop / search thread / timer thread / GUI in the design model
    uci_model(run, 4, "C14", liveness=True)
    if not quick:
        uci_model(run, 5, "C14b", liveness=False)
    # (B) spec -> impl: every GUI command history of the model x every stretched window, on the real binary
    abstract = uci_sessions(run, "C14")
    rnd.shuffle(abstract)
    take = abstract[:60 if quick else 1200]
    sessions = []
    for i, a in enumerate(take):
        for w in (WINDOWS if not quick else [WINDOWS[i % len(WINDOWS)], "after_bestmove" if i % 2 else "before_raise"]):
            sessions.append(concrete_session(a, w, rnd, binary if i % 5 else checked, "tlc-%d-%s" % (i, w)))
    # the three named races, explicitly
    for w in WINDOWS:
        env = {} if w == "none" else {"VERIF_SCHED_" + w: "250"}
        for b, bn in ((binary, "rel"), (checked, "chk")):
            sessions.append({"id": "race-afterbest-%s-%s" % (w, bn), "binary": b, "env": env, "steps": [
                {"send": "position startpos"}, {"send": "go depth 2"}, {"waitbest": 8},
                {"send": "position startpos moves e2e4", "afterbest": True}, {"send": "go depth 2", "afterbest": True}, {"waitbest": 8},
                {"send": "position startpos moves e2e4 e7e5", "afterbest": True}, {"send": "go movetime 20", "afterbest": True}, {"waitbest": 8}, {"quit": True}]})
            sessions.append({"id": "race-timer-%s-%s" % (w, bn), "binary": b, "env": env, "steps": [
                {"send": "position startpos"}, {"send": "go movetime 0"}, {"waitbest": 8},
                {"send": "position startpos"}, {"send": "go movetime 6"}, {"waitbest": 8},
                {"send": "position startpos"}, {"send": "go wtime 100 btime 100 winc 0 binc 0"}, {"waitbest": 8}, {"quit": True}]})
            sessions.append({"id": "race-stop-%s-%s" % (w, bn), "binary": b, "env": env, "steps": [
                {"send": "position startpos"}, {"send": "go infinite", "nofence": True}, {"send": "stop"}, {"waitbest": 8},
                {"send": "position startpos"}, {"send": "go infinite"}, {"send": "isready"}, {"send": "ucinewgame"}, {"waitbest": 8},
                {"send": "position fen 8/8/8/4k3/8/8/4K3/8 w - - 0 1"}, {"send": "go infinite"}, {"sleep": 1.0}, {"send": "isready"}, {"send": "stop"}, {"waitbest": 8},
                {"send": "position startpos"}, {"send": "go infinite"}, {"quit": True}]})
    # a long budget cut short: after `stop` (or after an early answer at the depth limit) the stdin loop must be free at once -
    # nothing may go on waiting for the rest of a 100 s move time or an hour on the clock
    for b, bn in ((binary, "rel"), (checked, "chk")):
        sessions.append({"id": "longbudget-" + bn, "binary": b, "env": {}, "steps": [
            {"send": "position startpos"}, {"send": "go movetime 100000"}, {"sleep": 0.3}, {"send": "stop"}, {"waitbest": 8}, {"send": "isready"},
            {"send": "position startpos moves e2e4", "afterbest": True}, {"send": "go depth 2", "afterbest": True}, {"waitbest": 8},
            {"send": "position startpos"}, {"send": "go wtime 3600000 btime 3600000 winc 0 binc 0"}, {"sleep": 0.3}, {"send": "stop"}, {"waitbest": 8},
            {"send": "isready"},
            {"send": "position startpos"}, {"send": "go depth 2 movetime 100000"}, {"waitbest": 8}, {"send": "stop"}, {"send": "isready"},
            {"send": "position startpos moves d2d4", "afterbest": True}, {"send": "go depth 1", "afterbest": True}, {"waitbest": 8}, {"quit": True}]})
    # a timer left asleep by an earlier, already answered timed go must not end a later search: the later go has no time
    # limit, so its bestmove may only come after stop / at its depth limit (TraceSession: premature-answer rule)
    for b, bn in ((binary, "rel"), (checked, "chk")):
        for k, later in enumerate(["go infinite", "go depth 60"]):
            sessions.append({"id": "stale-timer-%s-%d" % (bn, k), "binary": b, "env": {}, "steps": [
                {"send": "position startpos"}, {"send": "go movetime 1200 depth 1"}, {"waitbest": 8},
                {"send": "position startpos moves e2e4", "afterbest": True}, {"send": later, "afterbest": True}, {"sleep": 2.0},
                {"send": "isready"}, {"send": "stop"}, {"waitbest": 8}, {"quit": True}]})
    # replies of the stdin loop while the search thread is printing: bursts of isready during searches that print
    # hundreds of info lines a second (tiny positions)
    for b, bn in ((binary, "rel"), (checked, "chk")):
        for posn in ("position fen 8/8/8/4k3/8/8/4K3/8 w - - 0 1", "position fen 8/8/8/4k3/8/8/4P3/4K3 w - - 0 1", "position startpos"):
            sessions.append({"id": "burst-%s-%s" % (bn, posn.split()[-5][:12] if " fen " in posn else "startpos"), "binary": b, "env": {}, "steps": [
                {"send": posn}, {"send": "go infinite"}, {"burst": 1500 if quick else 6000}, {"send": "stop"}, {"waitbest": 8},
                {"send": posn}, {"send": "go depth 40"}, {"burst": 1500 if quick else 6000}, {"send": "stop"}, {"waitbest": 8}, {"quit": True}]})
    # randomized long sessions
    for i in range(14 if quick else 120):
        sessions.append(random_session(rnd, binary if i % 3 else checked, "random-%d" % i, 120 if quick else 600, WINDOWS[i % len(WINDOWS)]))
    outs, n = run_sessions(run, "C14", sessions, {"C14"}, "sessions")
    cmds = 0
    kinds = {}
    for out, _ in outs:
        for l in open(out):
            e = json.loads(l)
            if e.get("ev") == "cmd":
                cmds += 1
                kinds[e["kind"]] = kinds.get(e["kind"], 0) + 1
    for sd in sessions[:2] + sessions[-1:]:
        run.sample({"id": sd["id"], "env": sd["env"], "steps": sd["steps"][:12]})
    run.cov["evaluations"] = cmds
    run.cov["distinct_nontrivial"] = len(sessions)
    run.cov["sessions"] = len(sessions)
    run.cov["commands_by_kind"] = kinds
    run.cov["rule"] = ("one case = one UCI session on the real binary: a GUI command history enumerated by TLC from Uci.tla (4 commands, "
                       "quiescent / not quiescent at each send) x one stretched schedule window (hook sleep), the named race scripts in "
                       "every window on the release and the checked build, and long randomized sessions; distinct = distinct sessions; "
                       "evaluations = commands sent")
    run.assumptions += SESSION_ASSUME
    shutil.rmtree(os.path.join(game.TRACES, "C14"), ignore_errors=True)
    run.finish()


# --------------------------------------------------------------------------- C15

def shuffle_game(n):
    """(root fen, n legal plies) of a king shuffle that ends in the K v K position whose deep iterations are
    cheap (8/8/8/4k3/8/8/4K3/8, either side to move), so that a deep search after it really recurses deep"""
    a = ["e2e1", "e5e6", "e1e2", "e6e5"]          # from R, White to move, back to R
    b = ["e5e6", "e2e1", "e6e5", "e1e2"]          # from R, Black to move, back to R
    if n % 4 == 0:
        return "8/8/8/4k3/8/8/4K3/8 w - - 0 1", [a[i % 4] for i in range(n)]
    if n % 4 == 2:
        return "8/8/4k3/8/8/8/8/4K3 w - - 0 1", ["e1e2", "e6e5"] + [a[i % 4] for i in range(n - 2)]
    if n % 4 == 1:
        return "8/8/8/4k3/8/8/8/4K3 w - - 0 1", ["e1e2"] + [b[i % 4] for i in range(n - 1)]
    return "8/8/8/4k3/8/8/8/4K3 w - - 0 1", ["e1e2"] + [b[i % 4] for i in range(n - 3)] + ["e5e6", "e2e1"]


MONSTERS = ["QQQQ3k/Q4QQ1/7Q/Q6Q/Q6Q/Q2Q3Q/Q4QQ1/KQQQ4 w - - 0 1", "QQQQQ2k/Q4QQQ/7Q/Q6Q/Q6Q/Q2Q3Q/Q4QQQ/KQQQQ3 w - - 0 1",
            "rQrQQrQk/Q5Q1/Q1Q4Q/Q4Q1r/1Q4QK/1Q5Q/Q6Q/QnQQQQQQ w - - 0 1", "QQQQ3k/Q3QQQ1/Q6Q/Q6Q/Q6Q/Q2Q3Q/Q4Q1Q/KQQQQ2Q w - - 0 1",
            "R6R/3Q4/1Q4Q1/4Q3/2Q4Q/Q4Q2/pp1Q4/kBNN1KB1 w - - 0 1"]


@check("C15")
def c15(tier, seed):
    import random
    import subprocess
    run = core.Run("C15", tier, seed)
    vh = prepare()
    quick = tier == "quick"
    rnd = random.Random(seed)
    vhc = core.build_harness("checked")
    checked = core.build_bin(True)
    d = game.trace_dir("C15")
    # (M) capacity arithmetic of every interface history
    res = core.tlc_mc("Capacity", "mc/Capacity_fixed.cfg", workers=8, tag="c15-cap")
    if res["violated"]:
        raise core.ToolError("Capacity.tla (repaired arithmetic) violates %s" % res["violated"])
    res["output"] = ""
    run.add_mc(res, {"Cap": 512, "Limit": 400, "Margin": 64, "QMax": 47})
    tlaps(run, "CapacityProof")
    # (B1) the histories nearest to the capacity on the checked build of the real binary
    sessions = []
    for n in ([397, 398, 399] if quick else [300, 390, 396, 397, 398, 399, 400]):
        for depth in ([1, 49, 50, 113, 255, 0] if quick else [1, 47, 48, 49, 50, 64, 112, 113, 114, 200, 254, 255, 0]):
            go = "go infinite" if depth == 0 else "go depth %d" % depth
            sroot, smoves = shuffle_game(n)
            steps = [{"send": "position fen %s moves %s" % (sroot, " ".join(smoves))}, {"send": go}]
            steps += ([{"sleep": 1.5}, {"send": "stop"}] if depth == 0 else []) + [{"waitbest": 20}, {"send": "isready"}, {"quit": True}]
            sessions.append({"id": "long-%d-d%d" % (n, depth), "binary": checked, "steps": steps})
    # the same with a table that already holds a deep exact entry for the final position (searched first, from the short
    # game): the starting depth then comes from the table, not from 1
    for n in ([396] if quick else [392, 396]):
        for go in ["go depth 200", "go infinite", "go depth 40"]:
            sroot, smoves = shuffle_game(n)
            steps = [{"send": "position fen " + sroot}, {"send": "go infinite"}, {"sleep": 1.0}, {"send": "stop"}, {"waitbest": 20},
                     {"send": "position fen %s moves %s" % (sroot, " ".join(smoves))}, {"send": go}]
            steps += ([{"sleep": 1.5}, {"send": "stop"}] if go == "go infinite" else []) + [{"waitbest": 20}, {"send": "isready"}, {"quit": True}]
            sessions.append({"id": "deep-table-then-long-%d-%s" % (n, go.replace(" ", "")), "binary": checked, "steps": steps})
    # a richer long game: K+R v K+r shuffles keep captures and checks in the tree
    rr = "4k2r/8/8/8/8/8/8/R3K3 w - - 0 1"
    cyc = ["a1a2", "h8h7", "a2a1", "h7h8"]
    for n in ([398] if quick else [396, 398]):
        for go in ["go depth 60", "go movetime 1500"]:
            sessions.append({"id": "longrr-%d-%s" % (n, go.replace(" ", "")), "binary": checked, "steps": [
                {"send": "position fen %s moves %s" % (rr, " ".join(cyc[i % 4] for i in range(n)))}, {"send": go}, {"sleep": 2.0}, {"send": "stop"},
                {"waitbest": 20}, {"send": "isready"}, {"quit": True}]})
    # lines that never branch (TLC family FORCED: one legal move for each side, for ever): a ply of the line must cost a ply of
    # the depth limit, or the ply counter (u8) and the state stack run over
    ff = families(run, [("FORCED", 1)], seed, "C15forced")
    forced = [l.strip() for l in open(ff[0]) if l.strip()]
    import random as _r2
    forced = _r2.Random(seed).sample(forced, min(len(forced), 12 if quick else 80))
    for i, f in enumerate(forced):
        sessions.append({"id": "forced-line-%d" % i, "binary": checked, "steps": [
            {"send": "position fen " + f}, {"send": "go depth 3"}, {"waitbest": 20}, {"send": "position fen " + f, "afterbest": True},
            {"send": "go depth 6", "afterbest": True}, {"waitbest": 30}, {"send": "isready"}, {"quit": True}]})
    run.cov["forced_line_positions"] = len(forced)
    outs, n_ev = run_sessions(run, "C15", sessions, {"C14", "C15", "C06", "C07", "C08"}, "capacity", par=8)
    # (B2) self-play on the checked build: every search ended by the hook after N polls
    sp = []
    for k, polls in enumerate([0, 2, 60, 400] if quick else [0, 1, 2, 5, 30, 60, 200, 400, 1500, 5000]):
        env = dict(os.environ, VERIF_STOP_AFTER=str(polls))
        try:
            p = subprocess.run([checked, "auto", "100000000"], capture_output=True, text=True, timeout=240, env=env)
            rc, err, out = p.returncode, p.stderr, p.stdout
            hung = False
        except subprocess.TimeoutExpired as ex:
            rc, err, out, hung = -999, (ex.stderr or b"").decode(errors="replace") if isinstance(ex.stderr, bytes) else (ex.stderr or ""), "", True
        plies = out.count("Hash: ") - 1
        sp.append({"ev": "selfplay", "polls": polls, "rc": rc, "hung": hung, "plies": plies,
                   "panic": ("panicked" in err) or rc not in (0,), "msg": " | ".join(l for l in err.splitlines() if "panicked" in l or "assert" in l)[:300]})
    spf = os.path.join(d, "selfplay.ndjson")
    open(spf, "w").write("\n".join(json.dumps(e) for e in sp) + "\n")
    # (B3) maximal-mobility boards: hill-climbing over accepted FENs, on the checked harness
    mob = []
    for material in (1, 0):
        for k in range(2 if quick else 8):
            out = os.path.join(d, "mob-%d-%d.ndjson" % (material, k))
            p = core.sh([vhc, "mobility", "--seed", str(seed * 10 + k), "--iters", "15000" if quick else "120000", "--material", str(material),
                         "--restarts", "2", "--out", out], check=False, timeout=1200)
            if p.returncode != 0:
                open(out, "a").write(json.dumps({"ev": "panic", "msg": "mobility driver died rc=%d %s" % (p.returncode, p.stderr[-300:]), "root": "mobility"}) + "\n")
            mob.append((out, "vh(checked) mobility --material %d --seed %d" % (material, seed * 10 + k)))
    # boards the FEN reader accepts although no game reaches them: pawns on the first / eighth rank, rights without rooks,
    # en-passant squares without pawns, kings in contact ... everything is exercised on the checked harness
    def weird_fen(r):
        cells = ["."] * 64
        sq = list(range(64))
        r.shuffle(sq)
        cells[sq[0]] = "K"
        cells[sq[1]] = "k"
        budget = {"w": 8, "b": 8}
        k = 2
        for side, letters in (("w", "PPPPQRBN"), ("b", "ppppqrbn")):
            base = {"Q": 1, "R": 2, "B": 2, "N": 2}
            counts = {}
            for _ in range(r.randrange(0, 9)):
                c = r.choice(letters)
                up = c.upper()
                if up == "P":
                    if budget[side] <= 0:
                        continue
                    budget[side] -= 1
                else:
                    counts[up] = counts.get(up, 0) + 1
                    if counts[up] > base[up]:
                        if budget[side] <= 0:
                            continue
                        budget[side] -= 1
                # pawns are drawn towards the back ranks on purpose
                if up == "P" and r.random() < 0.5:
                    s = r.choice([x for x in range(64) if cells[x] == "." and (x < 8 or x >= 56)] or [sq[k]])
                else:
                    s = sq[k]
                    k += 1
                if cells[s] == ".":
                    cells[s] = c
        rows = []
        for rr in range(7, -1, -1):
            run_, t = 0, ""
            for ff in range(8):
                x = cells[rr * 8 + ff]
                if x == ".":
                    run_ += 1
                else:
                    t += (str(run_) if run_ else "") + x
                    run_ = 0
            rows.append(t + (str(run_) if run_ else ""))
        side = r.choice("wb")
        cast = "".join(c for c in "KQkq" if r.random() < 0.3) or "-"
        ep = r.choice(["-", "-", r.choice("abcdefgh") + ("6" if side == "w" else "3")])
        return "%s %s %s %s 0 1" % ("/".join(rows), side, cast, ep)
    weird = [weird_fen(rnd) for _ in range(1400 if quick else 20000)]

    def run_weird(ic):
        i, chunk = ic
        wf = os.path.join(d, "weird-%d.fens" % i)
        open(wf, "w").write("\n".join(chunk) + "\n")
        wo = os.path.join(d, "weird-%d.ndjson" % i)
        pw = core.sh([vhc, "fens", "--fens", wf, "--out", wo, "--succ", "1"], check=False, timeout=1800)
        if pw.returncode != 0:
            # a non-unwinding panic (violated unsafe precondition) aborts the process: attribute it to the chunk
            with open(wo, "a") as f:
                f.write(json.dumps({"ev": "panic", "msg": "checked harness died on an accepted FEN rc=%d %s" % (pw.returncode, pw.stderr[-300:]),
                                    "root": "one of: " + " | ".join(chunk[:3]) + " ..."}) + "\n")
        return (wo, "vh(checked) fens: random boards the FEN reader accepts (pawns on back ranks, rights without rooks, ...) chunk %d" % i)
    mob += core.pmap(run_weird, [(i, weird[i::core.NPROC]) for i in range(core.NPROC)])
    # known monster boards must be refused (or stay within the buffer)
    mf = os.path.join(d, "monsters.fens")
    open(mf, "w").write("\n".join(MONSTERS) + "\n")
    mo = os.path.join(d, "monsters.ndjson")
    core.sh([vhc, "fens", "--fens", mf, "--out", mo, "--succ", "0"], check=False, timeout=300)
    # (B4) the rules-layer and search drivers once on the checked harness (index / range assertions live)
    pj = game.play_traces(run, vhc, "C15", 6 if quick else 28, 3 if quick else 8, 60 if quick else 150, 2, seed)
    fams = families(run, [("PROMO", 200 if quick else 20), ("EP", 4000 if quick else 400), ("CASTLE", 300 if quick else 30)], seed, "C15")
    fj = game.family_traces(run, vhc, "C15", fams)
    game.judge_traces(run, pj + fj + mob + [(mo, "vh(checked) fens monsters")], {"C15"}, panic_filter=game.bounds_panic)
    # self-play outcome judged here (a crash is a crash): a panic or a hang is the violation
    for e in sp:
        run.cov["evaluations"] += 1
        if e["panic"] or e["hung"]:
            run.violation({"p": "C15", "w": "self-play on the checked build crashed or hung", "d": e},
                          {"driver": "selfplay", "cmd": "VERIF_STOP_AFTER=%d %s auto 100000000" % (e["polls"], checked)})
    flat, games = srch.game_positions(vh, "C15", seed, 3, 40, 8)
    hs = [[srch.step(srch.KVK, [], limit=255, watch_ms=20000)], [srch.step(srch.KVK, [], limit=None, watch_ms=20000)],
          [srch.step(srch.KPK, [], limit=None, watch_ms=4000)], [srch.step("startpos", [], limit=4)]]
    hs += [[srch.step(f, p, limit=3)] for f, p in flat[:10 if quick else 60]]
    srch.run_histories(run, vh, "C15", hs, {"C15"}, "checkedsearch", profile_vh=vhc)
    run.cov["evaluations"] += len(sessions) + len(hs) + sum(1 for _ in open(mo))
    run.cov["distinct_nontrivial"] = len(sessions) + len(hs) + len(sp) + len(mob)
    run.cov["self_play"] = sp
    run.cov["mobility_best"] = [json.loads(l).get("n") for o, _ in mob for l in open(o) if '"mob"' in l]
    run.sample({"session": sessions[0]["id"], "steps": [sessions[0]["steps"][0]["send"][:120] + " ...", sessions[0]["steps"][1]]})
    run.sample({"self_play": sp[0]})
    run.cov["rule"] = ("histories nearest to each capacity, from the arithmetic of Capacity.tla: games of 397-400 plies through `position ... moves` "
                       "followed by go depth d for d around every boundary and go infinite; self-play to the end with every search cut after N polls; "
                       "hill-climbing over FEN-acceptable boards maximising the generated-move count; the rules-layer and search drivers; all on "
                       "builds with debug assertions, unsafe-precondition checks and overflow checks on, so an out-of-range access panics; "
                       "non-trivial = reaches within 64 entries of a capacity or runs > 50 plies")
    run.assumptions += ["that an access is out of range is observed by Rust's own checks in the checked build; an access on a path no driver reaches is missed",
                        "arithmetic-overflow panics of the checked build that are not index or capacity failures are reported as notes, not as C15 violations"]
    shutil.rmtree(d, ignore_errors=True)
    run.finish()


# --------------------------------------------------------------------------- selftest of the machinery

def selftest():
    """The checks of the checks: (1) the reference rules reproduce the published perft counts; (2) the design-level
    models, switched back to the pinned code, violate exactly the properties the repairs restored (non-vacuity);
    (3) binding demo: one altered field of a recorded trace is reported at exactly that event, the unaltered trace is clean."""
    vh = prepare()
    ok = True

    def say(good, msg):
        nonlocal ok
        ok = ok and good
        print(("ok    " if good else "WRONG ") + msg, flush=True)

    res = core.tlc_mc("MC_Perft", "mc/MC_Perft.cfg", workers=14, env={"PERFT": os.path.join(core.VERIF, "lib", "perft_cases.json")}, tag="selftest-perft")
    say(res["ok"] and not res["violated"], "Chess.tla reproduces %d published perft counts (TLC)" % res["distinct"])
    pinned = [("Uci", "mc/Uci_pinned_raise.cfg", None, "temporal"), ("Uci", "mc/Uci_pinned_clear.cfg", None, "Honoured"),
              ("Uci", "mc/Uci_pinned_game.cfg", None, "NoPanic"), ("Capacity", "mc/Capacity_pinned_depth.cfg", None, "InvStack"),
              ("Capacity", "mc/Capacity_pinned_auto.cfg", None, "InvStack"),
              ("FenScan", "mc/FenScan_pinned5.cfg", None, "InvInRange"),
              ("PvsTable", "mc/PvsTable_shared_seeded.cfg", None, "InvSound"),
              ("MC_Engine", "mc/MC_Engine_pinned.cfg", {"ROOTS": gen.gen_roots(game.ENGINE_ROOTS[:2], "roots_selftest.json")}, "InvConsistent")]
    for mod, cfg, env, want in pinned:
        r = core.tlc_mc(mod, cfg, workers=12, env=env, tag="selftest-" + os.path.basename(cfg), heap="12g")
        say(r["violated"] == want, "%s with %s violates %s (got %s)" % (mod, os.path.basename(cfg), want, r["violated"]))
    for mod, cfg, env in [("Uci", "mc/Uci_fixed.cfg", None), ("Capacity", "mc/Capacity_fixed.cfg", None)]:
        r = core.tlc_mc(mod, cfg, workers=12, env=env, tag="selftest-" + os.path.basename(cfg), heap="12g")
        say(r["ok"] and not r["violated"], "%s with %s holds" % (mod, os.path.basename(cfg)))
    # binding demo on a recorded trace of the real Game
    d = game.trace_dir("selftest")
    t = os.path.join(d, "play.ndjson")
    core.sh([vh, "play", "--roots", os.path.join(core.VERIF, "lib", "roots.txt"), "--seed", "7", "--games", "2", "--plies", "25", "--walk", "1", "--out", t])
    lines = open(t).read().splitlines()
    r0 = core.tlc_trace(t)
    say(not [f for f in r0["fails"] if f["p"] != "DRIFT"], "unaltered trace of %d events: no judgement fails" % r0["events"])

    def altered(name, pick, edit, prop):
        idx = next(i for i, l in enumerate(lines) if pick(json.loads(l)))
        e = json.loads(lines[idx])
        edit(e)
        p = os.path.join(d, name + ".ndjson")
        open(p, "w").write("\n".join(lines[:idx] + [json.dumps(e)] + lines[idx + 1:]) + "\n")
        r = core.tlc_trace(p, tag="selftest-" + name)
        hit = [f for f in r["fails"] if f["p"] == prop and f["line"] == idx + 1]
        say(bool(hit), "altered %s at event %d is reported as %s at that event" % (name, idx + 1, prop))

    def drop_right(e):
        e["o"]["cast"] = e["o"]["cast"][:-1]
    altered("castling-right", lambda e: e["ev"] == "push" and len(e["o"]["cast"]) > 0, drop_right, "C02")
    altered("hash-limb", lambda e: e["ev"] == "push", lambda e: e["o"]["h"].__setitem__(2, e["o"]["h"][2] ^ 1), "C04")
    altered("score", lambda e: e["ev"] == "push", lambda e: e["o"].__setitem__("sc", e["o"]["sc"] + 10), "C16")
    altered("legal-list", lambda e: e["ev"] == "q" and e["what"] == "lg" and len(e["val"]) > 2, lambda e: e["val"].pop(), "C01")
    altered("take-back", lambda e: e["ev"] == "pop", lambda e: e["o"].__setitem__("sc", e["o"]["sc"] + 1), "C03")
    altered("fen-export", lambda e: e["ev"] == "q" and e["what"] == "fen", lambda e: e["val"].__setitem__(e["val"].index(" ") + 1, "b" if e["val"][e["val"].index(" ") + 1] == "w" else "w"), "C11")
    # binding demo on a recorded UCI session of the real binary (TraceSession)
    binary = core.build_bin(False)
    steps = [{"send": "position startpos moves e2e4 e7e5"}, {"send": "go depth 3"}, {"waitbest": 20}, {"send": "show"},
             {"send": "position fen 6k1/5ppp/8/8/8/8/5PPP/3R2K1 w - - 0 1"}, {"send": "go movetime 50"}, {"waitbest": 20},
             {"send": "position startpos"}, {"send": "go infinite"}, {"send": "stop"}, {"waitbest": 20}, {"quit": True}]
    sev = [{"ev": "session", "id": "selftest"}] + sessmod.run(binary, steps)
    sp = os.path.join(d, "session.ndjson")

    def session_fails(evs, tag):
        with open(sp, "w") as f:
            for e in evs:
                f.write(json.dumps(e) + "\n")
        return core.tlc_trace(sp, spec="TraceSession", tag="selftest-" + tag)["fails"]
    say(not [f for f in session_fails(sev, "s0") if f["p"] not in ("DRIFT", "HARNESS")], "unaltered UCI session of %d events: no judgement fails" % len(sev))
    bi = [i for i, e in enumerate(sev) if e["ev"] == "best"]
    say(len(bi) == 3, "the session recorded three bestmove events")
    if len(bi) == 3:
        dup = sev[:bi[0] + 1] + [dict(sev[bi[0]])] + sev[bi[0] + 1:]
        say(any(f["p"] == "C14" and f["line"] == bi[0] + 2 for f in session_fails(dup, "s1")), "a duplicated bestmove is reported as C14 at that event")
        bad = [dict(e) for e in sev]
        bad[bi[1]]["move"] = "d1d9"
        say(any(f["line"] == bi[1] + 1 and f["p"] in ("C06", "C07") for f in session_fails(bad, "s2")), "an illegal bestmove is reported at that event")
        drop = [dict(e) for e in sev[:bi[2]] + sev[bi[2] + 1:]]
        for e in drop[bi[2]:]:
            if e["ev"] == "waited":          # the driver would have waited in vain
                e.update(ok=False, t=e["t"] + 10000)
                break
        say(any(f["p"] == "C14" for f in session_fails(drop, "s3")), "a bestmove after stop removed from the transcript is reported as C14")
        pvi = [i for i, e in enumerate(sev) if e["ev"] == "pv" and len(e["line"]) >= 2]
        if pvi:
            bad = [dict(e) for e in sev]
            bad[pvi[0]] = dict(bad[pvi[0]], line=[bad[pvi[0]]["line"][0], "a1a1"])
            say(any(f["p"] == "C18" and f["line"] == pvi[0] + 1 for f in session_fails(bad, "s4")), "an unplayable pv line is reported as C18 at that event")
    # binding demo on a window-level tree event (RefSearch!Contract)
    script = os.path.join(d, "win.json")
    json.dump({"cases": [{"fen": "8/2p5/3p4/KP5r/1R3p1k/8/4P1P1/8 w - - 0 1", "pre": [], "d": 2, "win": 6, "illegal": False, "seed": 7}]}, open(script, "w"))
    wout = os.path.join(d, "win.ndjson")
    core.sh([vh, "tree", "--script", script, "--out", wout], timeout=600)
    wev = [json.loads(l) for l in open(wout)]
    if wev and "runs" in wev[0]:
        say(not core.tlc_trace(wout, spec="RefSearch", heap="6g", tag="selftest-w0")["fails"], "unaltered window searches (%d windows): contract holds" % len(wev[0]["runs"]))
        wev[0]["runs"][0]["score"] += 1          # the full-window run: the exact value is required
        with open(wout, "w") as f:
            f.write(json.dumps(wev[0]) + "\n")
        say(any(f["p"] == "C09" for f in core.tlc_trace(wout, spec="RefSearch", heap="6g", tag="selftest-w1")["fails"]), "an altered full-window result is reported as C09")
    else:
        say("skip" in (wev[0] if wev else {}), "window hook not built: window selftest skipped")
    shutil.rmtree(d, ignore_errors=True)
    print("selftest %s" % ("passed" if ok else "FAILED"))
    sys.exit(0 if ok else 2)
