"""One function per property.  See DESIGN.md section 6 for the decision procedure of each."""
import json
import os
import re
import shutil
import sys

import core
import game
import gen

CHECKS = {}


def check(name):
    def deco(fn):
        CHECKS[name] = fn
        return fn
    return deco


def prepare():
    vh = core.build_harness()
    core.gen_specs(vh)
    return vh


def setup():
    """MANIFEST.setup_cmd: build everything once, parse every specification."""
    vh = prepare()
    core.build_bin(False)
    core.build_bin(True)
    mods = sorted(f for f in os.listdir(core.SPEC) if f.endswith(".tla"))
    for m in mods:
        p = core.sh(["java", "-DTLA-Library=%s:%s" % (core.GEN, core.SPEC), "-cp", core.CP, "tla2sany.SANY", m],
                    cwd=core.SPEC, check=False)
        if p.returncode != 0 or "Semantic errors" in p.stdout or "Parse Error" in p.stdout or "Could not parse" in p.stdout:
            raise core.ToolError("SANY rejects %s:\n%s" % (m, p.stdout[-2000:]))
    print("setup ok: harness %s, %d modules parsed" % (vh, len(mods)))


# --------------------------------------------------------------------------- families

FAMILY_SIZE_HINT = {"CASTLE": 32768, "KXK": 330000, "EP": 600000, "PROMO": 40000, "KXKY": 10 ** 7}


def families(run, specs, seed, tag):
    """specs: list of (family, stride).  TLC enumerates each family (Chess!Sane decides
    membership) and prints FENs; returns list of files with the FENs."""
    d = os.path.join(core.BUILD, "fam", tag)
    shutil.rmtree(d, ignore_errors=True)
    os.makedirs(d, exist_ok=True)

    def one(spec):
        fam, stride = spec
        off = seed % stride
        cfg = os.path.join(d, "%s.cfg" % fam)
        with open(cfg, "w") as f:
            f.write('SPECIFICATION Spec\nCONSTANTS Fam = "%s" Stride = %d Off = %d\nINVARIANT Emit\nCHECK_DEADLOCK FALSE\n' % (fam, stride, off))
        res = core.tlc_mc("Families", cfg, workers=4, tag="fam-%s-%s" % (tag, fam), heap="6g")
        if res["violated"]:
            raise core.ToolError("Families.tla: unexpected violation " + str(res["violated"]))
        fens = sorted(set(re.findall(r'^<<"FEN", "(.*)">>$', res["output"], re.M)))
        out = os.path.join(d, "%s.fens" % fam)
        with open(out, "w") as f:
            f.write("\n".join(fens) + ("\n" if fens else ""))
        res["output"] = ""
        return fam, stride, off, out, len(fens), res
    outs = core.pmap(one, specs, n=4)
    files = []
    for fam, stride, off, out, n, res in outs:
        run.add_mc(res, {"Fam": fam, "Stride": stride, "Off": off, "members_emitted": n})
        if n == 0:
            raise core.ToolError("family %s produced no member (stride %d)" % (fam, stride))
        files.append(out)
    return files


# --------------------------------------------------------------------------- rules layer

GAME_RULE = ("positions: members of TLC-enumerated families (Chess!Sane decides membership) imported into the real Game, "
             "plus every position visited by weighted-random legal games and search-style nested push/pop walks from "
             "lib/roots.txt; a case is one (position, generated move) pair or one position; distinct = distinct by raw "
             "snapshot (board, side, rights, ep); non-trivial = the position has at least one generated move")


def game_check(prop, judged, tier, seed, fam_quick, fam_thorough, mc_roots_quick, mc_depth_quick,
               mc_roots_thorough, mc_depth_thorough, invariants, play_quick, play_thorough, assumptions):
    run = core.Run(prop, tier, seed)
    vh = prepare()
    quick = tier == "quick"
    # (M) exhaustive exploration of the reference state machine
    game.mc_chess(run, mc_roots_quick if quick else mc_roots_thorough, mc_depth_quick if quick else mc_depth_thorough,
                  invariants, workers=12, tag=prop)
    # (B) spec -> impl: TLC-enumerated families replayed into the real Game
    game.trace_dir(prop)
    fams = families(run, fam_quick if quick else fam_thorough, seed, prop)
    jobs = game.family_traces(run, vh, prop, fams)
    # (B) impl -> spec: randomized and search-shaped traces of the real Game
    n, games, plies, walk = play_quick if quick else play_thorough
    jobs += game.play_traces(run, vh, prop, n, games, plies, walk, seed)
    positions, pairs = set(), set()
    kinds = {}
    for path, desc in jobs:
        p, q, k = game.count_trace(path)
        positions |= p
        pairs |= q
        for kk, v in k.items():
            kinds[kk] = kinds.get(kk, 0) + v
    game.judge_traces(run, jobs, judged)
    run.cov["evaluations"] = sum(kinds.values())
    run.cov["distinct_nontrivial"] = len(pairs)
    run.cov["distinct_positions"] = len(positions)
    run.cov["events_by_kind"] = kinds
    run.cov["rule"] = GAME_RULE
    for path, desc in (jobs[-1], jobs[0]):
        with open(path) as f:
            for i, l in enumerate(f):
                if i in (0, 2, 9):
                    run.sample({"trace": desc, "event_index": i + 1, "event": game.brief(json.loads(l))})
                if i > 9:
                    break
    run.assumptions += assumptions + [
        "the laws of chess as written in spec/Chess.tla (cross-checked by TLC against published perft counts in selftest)",
        "the raw projection Game::verif_snapshot (hook) reports the fields of Game faithfully",
        "exhaustiveness holds for the listed families and bounds only; beyond them coverage is sampled"]
    shutil.rmtree(os.path.join(game.TRACES, prop), ignore_errors=True)
    run.finish()


START = "rnbqkbnr/pppppppp/8/8/8/8/PPPPPPPP/RNBQKBNR w KQkq - 0 1"
KIWI = "r3k2r/p1ppqpb1/bn2pnp1/3PN3/1p2P3/2N2Q1p/PPPBBPPP/R3K2R w KQkq - 0 1"
POS3 = "8/2p5/3p4/KP5r/1R3p1k/8/4P1P1/8 w - - 0 1"
POS4 = "r3k2r/Pppp1ppp/1b3nbN/nP6/BBP1P3/q4N2/Pp1P2PP/R2Q1RK1 w kq - 0 1"
POS5 = "rnbq1k1r/pp1Pbppp/2p5/8/2B5/8/PPP1NnPP/RNBQK2R w KQ - 1 8"
CAST = "r3k2r/8/8/8/8/8/8/R3K2R w KQkq - 0 1"
PROM = "n1n5/PPPk4/8/8/8/8/4Kppp/5N1N b - - 0 1"
EPR = "rnbqkbnr/ppp1p1pp/8/3pPp2/8/8/PPPP1PPP/RNBQKBNR w KQkq f6 0 3"


@check("C01")
def c01(tier, seed):
    game_check("C01", {"C01"}, tier, seed,
               fam_quick=[("CASTLE", 24), ("EP", 400), ("KXK", 300), ("PROMO", 40)],
               fam_thorough=[("CASTLE", 1), ("EP", 12), ("KXK", 8), ("PROMO", 2)],
               mc_roots_quick=[START, KIWI], mc_depth_quick=2,
               mc_roots_thorough=[START, KIWI, POS3, POS4, POS5, CAST, PROM, EPR], mc_depth_thorough=3,
               invariants=["InvSane", "InvUciInjective"],
               play_quick=(14, 3, 40, 2), play_thorough=(56, 8, 100, 2),
               assumptions=["C01 is judged at positions reachable by legal play (both kings present, side not to move not in check)"])
